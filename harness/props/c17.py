"""C17 — matrix decompositions return exact, correctly structured factors.

(a) correspondence of SFV.Model.Decomp with strawberryfields.decompositions: the embedded 2x2 blocks
    (T, Ti, mach_zehnder, mach_zehnder_inv, M, P), the null* helpers (branch taken + the mixed matrix) at
    rational points, the elimination schedules of all meshes, and end-to-end runs of the T- and MZ-meshes on
    permutation-like matrices (exact-zero / swap branches only);
(b) certificate oracle on the real functions: an INDEPENDENT reconstruction (lib/decomp17.py, from the
    docstring formulas) of the input from the returned factors + the promised structure, on dense,
    structured, degenerate, already-canonical and boundary-of-tolerance inputs of sizes 1..8, and rejection
    (ValueError) of invalid inputs;
(c) replay of a stored failing input."""
import math
from fractions import Fraction

import numpy as np

from lib import decomp17 as D

RULE = ("oracle: for each of takagi, williamson, bloch_messiah, 8 meshes, graph_embed, bipartite_graph_embed: "
        "inputs of sizes 1..8 (modes 1..5 for symplectic/covariance) from 19 unitary, 22 symmetric, 12 symplectic, "
        "10 covariance and 11 bipartite classes (dense random, identity, permutations with/without phases, block "
        "diagonal, few Givens rotations = exact zeros, degenerate / rank-deficient spectra, near-identity and "
        "near-permutation at 1e-3..1e-9, within-tolerance non-unitary) + 10 classes of invalid input per function "
        "family; correspondence: blocks/null steps at rational circle points on 2..6 modes, all positions. "
        "A case is non-trivial when the matrix has >= 2 rows and is not the identity; distinct = hash of "
        "(function, class, matrix).")
ASSUMPTIONS = ["float64 vs exact: agreement demanded at 1e-9*scale (correspondence) and 1e-8*scale (certificates) on "
               "well-conditioned inputs (|entries| <= 1e3, squeezing <= 1.2, symplectic eigenvalues in [1,4])",
               "williamson's factorisation is V = S Db S^T (the convention of its callers and tests; the docstring "
               "was corrected in the same series of fixes)",
               "'valid input' = passes the function's own documented validity test with its default tolerances"]
TRUSTED = ["modelled: decompositions.T/Ti/mach_zehnder/mach_zehnder_inv/M/P, nullT/nullTi/nullMZ/nullMZi, the loop "
           "orders of triangular, rectangular(_phase_end), rectangular_MZ/_symmetric, triangular_compact, "
           "rectangular_compact, sun_compact",
           "not modelled, certificate-checked per call: numpy/scipy eigh, svd, schur, polar, sqrtm, inv, det; "
           "thewalrus adj_scaling, sympmat, xpxp_to_xxpp"]

TOL = 1e-8
CTOL = 1e-9
MESHES = ["rectangular", "rectangular_phase_end", "rectangular_MZ", "rectangular_symmetric", "triangular",
          "triangular_compact", "rectangular_compact", "sun_compact"]


# ------------------------------------------------------------------------------------------------
# helpers

def err(A, B):
    A, B = np.asarray(A), np.asarray(B)
    if A.shape != B.shape:
        return float("inf")
    if A.size == 0:
        return 0.0
    d = np.abs(A - B)
    return float(np.max(d)) if np.all(np.isfinite(d)) else float("inf")


def frat(x):
    f = Fraction(x)
    return [f.numerator, f.denominator]


def jcx(z):
    """complex given as (Fraction, Fraction) or python complex -> [[n,d],[n,d]]"""
    if isinstance(z, tuple):
        return [frat(z[0]), frat(z[1])]
    z = complex(z)
    return [frat(z.real), frat(z.imag)]


def cx_of(j):
    return complex(Fraction(j[0][0], j[0][1]), Fraction(j[1][0], j[1][1]))


def mat_of(j):
    return np.array([[cx_of(e) for e in row] for row in j], dtype=np.complex128)


def circle(rng, positive=False, dmax=7):
    """rational point on the unit circle as Fractions (c, s)"""
    while True:
        p, q = rng.randint(-dmax, dmax), rng.randint(1, dmax)
        t = Fraction(p, q)
        c, s = (1 - t * t) / (1 + t * t), 2 * t / (1 + t * t)
        if not positive or (c > 0 and s > 0):
            return c, s


def fmul(a, b):
    return (a[0] * b[0] - a[1] * b[1], a[0] * b[1] + a[1] * b[0])


def fconj(a):
    return (a[0], -a[1])


def fneg(a):
    return (-a[0], -a[1])


def fscale(r, a):
    return (r * a[0], r * a[1])


def fcomplex(a):
    return complex(float(a[0]), float(a[1]))


def rand_fcx(rng, nonzero=False):
    while True:
        z = (Fraction(rng.randint(-6, 6), rng.choice([1, 2, 4])), Fraction(rng.randint(-6, 6), rng.choice([1, 2, 4])))
        if not nonzero or z != (0, 0):
            return z


# ------------------------------------------------------------------------------------------------
# (a) correspondence

def corr_blocks(ctx, dec, reqs, pend):
    rng = ctx.rng
    for _ in range(ctx.n(600, 6000)):
        N = rng.randint(2, 6)
        c, s = circle(rng)
        e = circle(rng)
        th, ph = math.atan2(s, c), math.atan2(e[1], e[0])
        kind = rng.choice(["T", "Ti", "MZ", "MZi", "M", "P"])
        m, n = rng.sample(range(N), 2)
        if kind in ("T", "Ti"):
            impl = getattr(dec, kind)(m, n, th, ph, N)
            reqs.append(dict(op="dec.embed", kind=kind, n=N, p=m, q=n, c=frat(c), s=frat(s), e=jcx(e)))
        elif kind in ("MZ", "MZi"):
            fn = dec.mach_zehnder if kind == "MZ" else dec.mach_zehnder_inv
            impl = fn(m, n, 2 * th, ph, N)          # (c, s) are the atoms of the half internal angle
            reqs.append(dict(op="dec.embed", kind=kind, n=N, p=m, q=n, c=frat(c), s=frat(s), e=jcx(e)))
        elif kind == "M":
            m = rng.randrange(N - 1)
            impl = dec.M(m, ph, th, N)               # M(n, sigma, delta, m): (c, s) = (cos delta, sin delta)
            reqs.append(dict(op="dec.embed", kind="M", n=N, p=m, q=m + 1, c=frat(c), s=frat(s), e=jcx(e)))
        else:
            impl = dec.P(m, ph, N)
            reqs.append(dict(op="dec.embed", kind="P", n=N, p=m, e=jcx(e)))
        case = dict(kind=kind, N=N, m=m, n=n, c=str(c), s=str(s), e=[str(e[0]), str(e[1])])
        pend.append(("block:" + kind, case, np.asarray(impl)))
        ctx.count("corr:block:" + kind, ["block", case], True, sample=case)


def corr_null(ctx, dec, reqs, pend):
    """null helpers: which pair, which branch, and the matrix after the mix (target entry exactly 0 in the model)"""
    rng = ctx.rng
    for _ in range(ctx.n(800, 8000)):
        N = rng.randint(2, 5)
        helper = rng.choice(["nullTi", "nullT", "nullMZi", "nullMZ"])
        branch = rng.choice(["generic", "generic", "zero", "swap"])
        U = [[rand_fcx(rng) for _ in range(N)] for _ in range(N)]
        c, s = circle(rng, positive=True)
        rho = s / c
        e = circle(rng)
        colmix = helper in ("nullTi", "nullMZi")
        if colmix:
            m, n = rng.randrange(N), rng.randrange(N - 1)       # target (m, n), partner (m, n+1)
            tpos, ppos, p = (m, n), (m, n + 1), n
        else:
            r, col = rng.randrange(1, N), rng.randrange(N)       # target (r, col), partner (r-1, col)
            tpos, ppos, p = (r, col), (r - 1, col), r - 1
        partner = rand_fcx(rng, nonzero=True)
        if branch == "zero":
            target = (Fraction(0), Fraction(0))
            partner = rng.choice([partner, (Fraction(0), Fraction(0))])
        elif branch == "swap":
            target, partner = rand_fcx(rng, nonzero=True), (Fraction(0), Fraction(0))
        elif helper == "nullTi":            # U[m,n] / U[m,n+1] = rho e
            target = fscale(rho, fmul(e, partner))
        elif helper == "nullT":             # -U[n,m] / U[n-1,m] = rho e
            target = fneg(fscale(rho, fmul(e, partner)))
        elif helper == "nullMZi":           # -U[m,n+1] / U[m,n] = rho conj(e):  partner = -(rho conj e) target
            target = rand_fcx(rng, nonzero=True)
            partner = fneg(fscale(rho, fmul(fconj(e), target)))
        else:                               # U[n-1,m] / U[n,m] = rho conj(e):  partner = rho conj(e) target
            target = rand_fcx(rng, nonzero=True)
            partner = fscale(rho, fmul(fconj(e), target))
        U[tpos[0]][tpos[1]], U[ppos[0]][ppos[1]] = target, partner
        Uf = np.array([[fcomplex(z) for z in row] for row in U], dtype=np.complex128)
        res = getattr(dec, helper)(tpos[0], tpos[1], Uf)      # (row, column) of the target for all four helpers
        a, b = res[2], res[3]
        mz = helper in ("nullMZi", "nullMZ")
        if not mz:
            ibranch = "zero" if (a == 0 and b == 0) else "swap" if (a == np.pi / 2 and b == 0) else "generic"
        else:
            ibranch = "zero" if (a == np.pi and b == 0) else "swap" if (a == 0 and b == 0) else "generic"
        fn = dict(nullTi=dec.Ti, nullT=dec.T, nullMZi=dec.mach_zehnder_inv, nullMZ=dec.mach_zehnder)[helper]
        after = Uf @ fn(*res) if colmix else fn(*res) @ Uf
        case = dict(helper=helper, branch=branch, N=N, target=list(tpos), U=[[[str(z[0]), str(z[1])] for z in row] for row in U])
        # model: branch
        reqs.append(dict(op="dec.branch", target=jcx(target), partner=jcx(partner)))
        pend.append(("null:branch", case, ibranch))
        # model: pair + mixed matrix with the atoms the branch fixes / the generic relation
        mbranch = "zero" if target == (0, 0) else "swap" if partner == (0, 0) else "generic"
        if mbranch == "generic":
            cc, ss, ee = c, s, e
        elif (mbranch == "zero") != mz:
            cc, ss, ee = Fraction(1), Fraction(0), (Fraction(1), Fraction(0))
        else:
            cc, ss, ee = Fraction(0), Fraction(1), (Fraction(1), Fraction(0))
        kind = dict(nullTi="Ti", nullT="T", nullMZi="MZi", nullMZ="MZ")[helper]
        reqs.append(dict(op="dec.mix", kind=kind, left=not colmix, p=p, q=p + 1, c=frat(cc), s=frat(ss), e=jcx(ee),
                         U=[[jcx(z) for z in row] for row in U]))
        pend.append(("null:mix", dict(case, pair=[int(res[0]), int(res[1])], want_pair=[p, p + 1], nmax=res[4]), after))
        ctx.count(f"corr:null:{helper}:{mbranch}", ["null", case], True, sample=dict(helper=helper, branch=mbranch, N=N))


def observed_schedule(dec, mesh, U):
    """what the real code does, seen at its public results (+ the arguments of the null helpers when they exist)"""
    calls = []
    saved = {}
    for h in ("nullT", "nullTi", "nullMZ", "nullMZi"):
        if hasattr(dec, h):
            saved[h] = getattr(dec, h)

            def wrap(a, b, M, _h=h, _f=saved[h]):
                calls.append((_h in ("nullT", "nullMZ"), int(a), int(b)))
                return _f(a, b, M)
            setattr(dec, h, wrap)
    try:
        res = getattr(dec, mesh)(U)
    finally:
        for h, f in saved.items():
            setattr(dec, h, f)
    return res, calls


def corr_schedules(ctx, dec, reqs, pend):
    nmax = 8 if ctx.tier == "quick" else 11
    rs = ctx.nprng(17)
    for n in range(1, nmax + 1):
        U = D.haar(rs, n)
        for mesh, model in (("triangular", "triangular"), ("rectangular", "rectangular"), ("rectangular_MZ", "rectangular"),
                            ("rectangular_phase_end", "rectangular"), ("rectangular_symmetric", "rectangular")):
            res, calls = observed_schedule(dec, mesh, U)
            if mesh == "triangular":
                rows = [[int(t[0]), int(t[1])] for t in reversed(res[0])]
                cols = []
            elif mesh in ("rectangular", "rectangular_MZ"):
                cols = [[int(t[0]), int(t[1])] for t in res[0]]
                rows = [[int(t[0]), int(t[1])] for t in res[2]]
            else:   # phase_end / symmetric: tilist followed by the pushed tlist in reverse order (split in compare)
                cols, rows = None, [[int(t[0]), int(t[1])] for t in res[0]]
            reqs.append(dict(op="dec.schedule", mesh=model, n=n))
            pend.append(("schedule", dict(mesh=mesh, n=n), dict(rows=rows, cols=cols, calls=[list(c) for c in calls])))
            ctx.count("corr:schedule:" + mesh, ["schedule", mesh, n], n >= 3)
        if n >= 1:
            ph = dec.triangular_compact(U)
            reqs.append(dict(op="dec.schedule", mesh="triangular_compact", n=n))
            pend.append(("schedule_compact", dict(mesh="triangular_compact", n=n), sorted(map(list, ph["deltas"]))))
            ph = dec.rectangular_compact(U)
            reqs.append(dict(op="dec.schedule", mesh="rectangular", n=n))
            pend.append(("schedule_compact", dict(mesh="rectangular_compact", n=n), sorted(map(list, ph["deltas"]))))
            ctx.count("corr:schedule:compact", ["schedule", "compact", n], n >= 3)
        if n >= 3:
            params, _ = dec.sun_compact(U)
            reqs.append(dict(op="dec.schedule", mesh="sun", n=n))
            pend.append(("schedule_sun", dict(mesh="sun_compact", n=n), [[int(m[0]), int(m[1])] for m, _ in params]))
            ctx.count("corr:schedule:sun", ["schedule", "sun", n], True)
        reqs.append(dict(op="dec.pattern", mesh="rectangular", n=n))
        pend.append(("pattern", dict(mesh="rectangular", n=n), True))
        reqs.append(dict(op="dec.pattern", mesh="triangular", n=n))
        pend.append(("pattern", dict(mesh="triangular", n=n), True))


def corr_exact(ctx, dec, reqs, pend):
    """signed/phased permutation matrices: only the exact-zero and swap branches occur; compare the branch taken at
    every step and the final diagonal with the model's exact run"""
    rng = ctx.rng
    for _ in range(ctx.n(300, 2400)):
        n = rng.randint(1, 6)
        perm = list(range(n))
        rng.shuffle(perm)
        ph = [rng.choice([1, -1, 1j, -1j]) for _ in range(n)]
        U = np.zeros((n, n), dtype=np.complex128)
        for i, j in enumerate(perm):
            U[i, j] = ph[i]
        Uj = [[jcx(complex(U[i, j])) for j in range(n)] for i in range(n)]
        for mesh, mz in (("rectangular", False), ("triangular", False), ("rectangular_MZ", True)):
            res = getattr(dec, mesh)(U.copy())
            if mesh == "triangular":
                rows, cols = [t[2:4] for t in reversed(res[0])], []
            else:
                cols, rows = [t[2:4] for t in res[0]], [t[2:4] for t in res[2]]

            def br(t):
                # canonical branch: cos(pi/2) = 6e-17 in float64 turns later exact zeros of the T-meshes into
                # "generic" steps with an angle within 1e-16 of 0 or pi/2; they are the same branch
                a = float(t[0])
                if not mz:
                    return "zero" if abs(a) < 1e-9 else "swap" if abs(a - np.pi / 2) < 1e-9 else "generic"
                a = a % (2 * np.pi)
                return "zero" if abs(a - np.pi) < 1e-9 else "swap" if min(a, 2 * np.pi - a) < 1e-9 else "generic"
            impl = dict(rows=[br(t) for t in rows], cols=[br(t) for t in cols], diag=np.asarray(res[1]), mz=mz)
            reqs.append(dict(op="dec.runExact", mesh="triangular" if mesh == "triangular" else "rectangular", mz=mz, U=Uj))
            reqs.append(dict(op="dec.schedule", mesh="triangular" if mesh == "triangular" else "rectangular", n=n))
            case = dict(mesh=mesh, n=n, perm=perm, phases=[str(p) for p in ph])
            pend.append(("exact", case, impl))
            pend.append(("skip", None, None))
            ctx.count("corr:exact:" + mesh, ["exact", case], n >= 2, sample=case)


def corr_absorb(ctx, dec, reqs, pend):
    """_absorb_zeta with zetas[j] = 2**j and all other phases 0: every update is visible exactly"""
    fn = getattr(dec, "_absorb_zeta", None)
    if fn is None:
        ctx.notes.append("decompositions._absorb_zeta not found: relocation correspondence skipped (oracle still applies)")
        return
    for m in range(1, ctx.n(11, 14)):
        keys = [(mode, layer) for layer in range(m) for mode in range(layer % 2, m - 1, 2)]
        phases = dict(m=m, phi_ins={j: 0.0 for j in range(0, m - 1, 2)}, deltas={k: 0.0 for k in keys},
                      sigmas={k: 0.0 for k in keys}, zetas={j: float(2 ** j) for j in range(m)},
                      phi_outs={m - j - 1: 0.0 for j in range(1, m - 1, 2)})
        out = fn(phases)
        impl = dict(sigma={f"{k[0]},{k[1]}": v for k, v in out["sigmas"].items() if v != 0},
                    edge={f"{k[0]},{k[1]}": v for k, v in out["phi_edges"].items() if v != 0},
                    out={str(k): v for k, v in out["phi_outs"].items() if v != 0},
                    keys=sorted(k for k in out if k != "m"))
        reqs.append(dict(op="dec.absorb", m=m))
        pend.append(("absorb", dict(m=m), impl))
        ctx.count("corr:absorb_zeta", ["absorb", m], m >= 3, sample=dict(m=m))


def corr_takagi_order(ctx, dec, reqs, pend):
    """real branch of takagi on diagonal integer matrices: order of the values, which eigenvector goes where, phases"""
    rng = ctx.rng
    for _ in range(ctx.n(120, 600)):
        n = rng.randint(1, 7)
        pool = list(range(-6, 7))
        l = sorted(rng.sample(pool, n))                  # distinct eigenvalues, +-pairs and 0 included
        if l == [0]:
            continue
        sigma = list(range(n))
        rng.shuffle(sigma)
        N = np.diag([float(l[sigma[r]]) for r in range(n)])
        rl, U = dec.takagi(N.copy())
        reqs.append(dict(op="dec.takagiOrder", l=l))
        pend.append(("takagi_order", dict(l=l, sigma=sigma), dict(rl=np.asarray(rl, dtype=float), U=np.asarray(U), N=N)))
        ctx.count("corr:takagi_real_order", ["takagi_order", l, sigma], n >= 2 and any(-x in l for x in l if x > 0),
                  sample=dict(l=l, sigma=sigma))


def corr_bmperm(ctx, dec, reqs, pend):
    """bloch_messiah: the diagonal of the squeezing factor is the decreasingly sorted singular values in the model's order"""
    rs = ctx.nprng(41)
    for _ in range(ctx.n(40, 200)):
        n = int(rs.integers(1, 6))
        S = D.symplectic_case(rs, n, str(rs.choice(["generic", "pairs", "close_distinct", "one_unsqueezed", "signs"])))
        ss = np.linalg.svd(S, compute_uv=False)
        try:
            st = np.diag(dec.bloch_messiah(S.copy())[1])
        except Exception:                                       # noqa: BLE001   (reported by the oracle with the input)
            continue
        reqs.append(dict(op="dec.bmPerm", n=n))
        pend.append(("bmperm", dict(n=n, S=D.to_json_matrix(S)), dict(ss=ss, st=np.asarray(st))))
        ctx.count("corr:bloch_messiah_order", ["bmperm", D.to_json_matrix(S)], n >= 2)


def corr_su2(ctx, dec, reqs, pend):
    """sun_compact on 1 (+) W with W in SU(2) at rational points: the returned (a, b, g) fed to the model's SU(2) block
    must give W back (documented parametrisation)"""
    rng = ctx.rng
    for _ in range(ctx.n(60, 300)):
        c, s = circle(rng, positive=True)
        pth, qth = circle(rng), circle(rng)
        u = fscale(c, pth)
        v = fscale(s, qth)
        W = np.array([[fcomplex(u), -fcomplex(fconj(v))], [fcomplex(v), fcomplex(fconj(u))]])
        U = np.identity(3, dtype=np.complex128)
        U[1:, 1:] = W
        try:
            params, phase = dec.sun_compact(U.copy())
        except Exception:                                       # noqa: BLE001   (the oracle reports such inputs)
            continue
        (m3, (a, b, g)) = params[2]
        case = dict(c=str(c), s=str(s), p=[str(pth[0]), str(pth[1])], q=[str(qth[0]), str(qth[1])])
        rest = [list(map(float, p_)) for _, p_ in params[:2]]
        reqs.append(dict(op="dec.embed", kind="SU2", n=3, p=1, q=2, c=frat(math.cos(b / 2)), s=frat(math.sin(b / 2)),
                         e=jcx(1), ea=jcx(complex(math.cos(a / 2), math.sin(a / 2))),
                         eg=jcx(complex(math.cos(g / 2), math.sin(g / 2)))))
        pend.append(("su2", case, dict(U=U, rest=rest, modes=[int(m3[0]), int(m3[1])], phase=phase)))
        ctx.count("corr:su2_parameters", ["su2", case], True, sample=case)


def compare(ctx, reqs, pend):
    if not ctx.proof_ok or not reqs:
        return
    res = ctx.lean(reqs)
    for idx, ((kind, case, impl), model) in enumerate(zip(pend, res)):
        if kind == "skip":
            continue
        ctx.corr_cases += 1
        if isinstance(model, dict) and "__error__" in model:
            ctx.disagree("Decomp." + kind, case, model, "model error")
            continue
        if kind.startswith("block:"):
            M = mat_of(model)
            if err(M, impl) > CTOL:
                ctx.disagree(f"Decomp.embed vs decompositions.{kind[6:]}", case, M.tolist(), impl.tolist())
        elif kind == "null:branch":
            if model != impl:
                ctx.disagree("Decomp.nullBranch vs null helper branch", case, model, impl)
        elif kind == "null:mix":
            M = mat_of(model)
            t = case["target"]
            if case["pair"] != case["want_pair"] or case["nmax"] != case["N"]:
                ctx.disagree("Decomp mode pair vs null helper", case, case["want_pair"], case["pair"])
            elif abs(M[t[0], t[1]]) != 0:
                ctx.disagree("Decomp.null_step (model target not zero: harness relation wrong)", case, str(M[t[0], t[1]]), None)
            elif err(M, impl) > CTOL * max(1.0, float(np.max(np.abs(M)))):
                ctx.disagree(f"Decomp.mix vs U @ block(*{case['helper']}(..))", case, M.tolist(), np.asarray(impl).tolist())
        elif kind == "schedule":
            rows = [[s[1], s[1] + 1] for s in model if s[0]]
            cols = [[s[1], s[1] + 1] for s in model if not s[0]]
            if impl["cols"] is None:
                both = impl["rows"]
                impl["cols"], impl["rows"] = both[:len(cols)], list(reversed(both[len(cols):]))
            if rows != impl["rows"] or cols != impl["cols"]:
                ctx.disagree(f"Decomp schedule vs {case['mesh']} (mode pairs of the returned lists)", case,
                             dict(rows=rows, cols=cols), dict(rows=impl["rows"], cols=impl["cols"]))
            elif impl["calls"] and len(impl["calls"]) == len(model):
                # targets, when the null helpers are there to be observed (order of row/col steps is interleaved)
                mcalls = [[bool(s[0]), s[2], s[3]] for s in model]
                if mcalls != [[bool(c[0]), c[1], c[2]] for c in impl["calls"]]:
                    ctx.disagree(f"Decomp schedule targets vs {case['mesh']} (null helper arguments)", case, mcalls, impl["calls"])
        elif kind == "schedule_compact":
            n = case["n"]
            keys, d_prev, k_in = [], None, 0
            for s in model:
                d = s[2] - s[3]
                k_in = k_in + 1 if d == d_prev else 0
                d_prev = d
                if case["mesh"] == "triangular_compact" or not s[0]:
                    keys.append([s[1], k_in])
                else:
                    keys.append([s[1], n - k_in - 1])
            if sorted(keys) != impl:
                ctx.disagree(f"Decomp schedule vs {case['mesh']} (sMZI positions)", case, sorted(keys), impl)
        elif kind == "schedule_sun":
            if model != impl:
                ctx.disagree("Decomp.sunSchedule vs sun_compact (mode pairs)", case, model, impl)
        elif kind == "pattern":
            if model.get("lowerDone") is not True:
                ctx.disagree("Decomp pattern: lower triangle not zero after schedule", case, model, True)
        elif kind == "absorb":
            want = dict(sigma={}, edge={}, out={})
            for slot, mode, layer, plus, j in model:
                key = f"{mode},{layer}" if slot != "out" else str(mode)
                if slot == "out":
                    want["out"][key] = float(2 ** j)
                else:
                    want[slot][key] = want[slot].get(key, 0.0) + (1 if plus else -1) * float(2 ** j)
            want = {k: {kk: v for kk, v in d.items() if v != 0} for k, d in want.items()}
            got = {k: impl[k] for k in ("sigma", "edge", "out")}
            if want != got or impl["keys"] != ["deltas", "phi_edges", "phi_ins", "phi_outs", "sigmas"]:
                ctx.disagree("Decomp.absorbUpdates vs _absorb_zeta", case, want, dict(got, keys=impl["keys"]))
        elif kind == "takagi_order":
            l, sigma = case["l"], case["sigma"]
            order, phsq = model["order"], model["phaseSq"]
            ok = len(order) == len(l) and np.array_equal(impl["rl"], np.array([float(v) for v, _ in order]))
            if ok:
                # columns of equal singular value may come in any order (the model fixes Python's tuple order; a stable
                # sort by value alone is as good): compare, per value, the set of (row, phase^2) of its columns
                n = len(l)
                U2 = impl["U"] ** 2
                for val in {v for v, _ in order}:
                    cols = [k for k, (v, _) in enumerate(order) if v == val]
                    want = sorted((sigma.index(i), phsq[i]) for v, i in order if v == val)
                    got = []
                    for k in cols:
                        nz = [r for r in range(n) if abs(U2[r, k]) > 1e-12]
                        if len(nz) != 1 or abs(U2[nz[0], k] - round(U2[nz[0], k].real)) > 1e-12:
                            ok = False
                            break
                        got.append((nz[0], int(round(U2[nz[0], k].real))))
                    ok = ok and sorted(got) == want
            if not ok:
                ctx.disagree("Decomp.takagiOrder vs takagi (real branch: values, column order, phases)", case,
                             model, dict(rl=impl["rl"].tolist(), U2=(impl["U"] ** 2).tolist()))
        elif kind == "bmperm":
            want = impl["ss"][np.array(model, dtype=int)]
            if err(want, impl["st"]) > CTOL * max(1.0, float(np.max(want))):
                ctx.disagree("Decomp.bmPerm vs bloch_messiah (order of the squeezing diagonal)", case, want.tolist(), impl["st"].tolist())
        elif kind == "su2":
            M = mat_of(model)
            if impl["modes"] != [1, 2] or impl["phase"] is not None or any(abs(x) > 1e-12 for r in impl["rest"] for x in r):
                ctx.disagree("sun_compact on 1 (+) SU(2): factors other than the last one are not trivial", case, None,
                             dict(modes=impl["modes"], rest=impl["rest"], phase=impl["phase"]))
            elif err(M, impl["U"]) > CTOL:
                ctx.disagree("Decomp.blkSU2(atoms of sun_compact's (a,b,g)) vs the decomposed SU(2) matrix", case,
                             M.tolist(), impl["U"].tolist())
        elif kind == "exact":
            sched = res[idx + 1]
            if model is None:
                ctx.disagree("Decomp.runExact met a generic branch on a permutation-like matrix", case, None, impl["rows"] + impl["cols"])
                continue
            mrows = [b for b, s in zip(model["branches"], sched) if s[0]]
            mcols = [b for b, s in zip(model["branches"], sched) if not s[0]]
            V = mat_of(model["V"]).reshape(case["n"], case["n"])
            if mrows != impl["rows"] or mcols != impl["cols"]:
                ctx.disagree(f"Decomp.runExact branches vs {case['mesh']}", case, dict(rows=mrows, cols=mcols),
                             dict(rows=impl["rows"], cols=impl["cols"]))
            elif err(V, np.diag(np.diag(V))) > 0 or (
                    err(np.diag(V), impl["diag"]) > CTOL if impl["mz"] else err(np.abs(np.diag(V)), np.abs(impl["diag"])) > CTOL):
                ctx.disagree(f"Decomp.runExact final matrix vs {case['mesh']} diagonal", case, V.tolist(), impl["diag"].tolist())


# ------------------------------------------------------------------------------------------------
# (b) certificate oracle

PRESENT = dict(mode="plain", modified=None)
PRESENT_MODES = ["plain", "plain", "plain", "readonly", "fortran", "strided"]


def present(A):
    """the array object handed to the code under test: a fresh C array, a read-only one (an in-place write raises),
    a Fortran-ordered one or a strided view into a larger buffer"""
    mode = PRESENT["mode"]
    if mode == "fortran":
        return np.asfortranarray(A.copy())
    if mode == "strided" and A.ndim == 2:
        big = np.zeros((2 * A.shape[0], 2 * A.shape[1]), dtype=A.dtype)
        big[::2, ::2] = A
        return big[::2, ::2]
    B = A.copy()
    if mode == "readonly":
        B.flags.writeable = False
    return B


def call(f, A, *args, **kw):
    """call the real function on a presented copy of A and record whether it changed its input in place"""
    B = present(A)
    snap = B.copy()
    try:
        return f(B, *args, **kw)
    finally:
        if B.shape != snap.shape or not np.array_equal(B, snap, equal_nan=True):
            PRESENT["modified"] = "the input array was modified in place (max change %.3g)" % (
                float(np.max(np.abs(B - snap))) if B.shape == snap.shape else float("nan"))


def check_mesh(dec, mesh, U, **kw):
    """returns None or (what, detail) for one call of a mesh on a valid unitary"""
    n = U.shape[0]
    try:
        res = call(getattr(dec, mesh), U, **kw)
    except Exception as e:                                      # noqa: BLE001
        return "raised", f"{type(e).__name__}: {str(e)[:80]}"
    try:
        if mesh in ("rectangular", "rectangular_MZ"):
            why = D.check_tlist(res[0], n, "tilist") or D.check_tlist(res[2], n, "tlist") or D.check_diag(res[1], n)
            if why:
                return "structure", why
            q = D.rec_rectangular(res, n) if mesh == "rectangular" else D.rec_rectangular(res, n, D.blkMZ, D.blkMZinv)
        elif mesh in ("rectangular_phase_end", "rectangular_symmetric"):
            why = D.check_tlist(res[0], n, "tlist") or D.check_diag(res[1], n) or (None if res[2] is None else "third item not None")
            if why:
                return "structure", why
            q = D.rec_phase_end(res, n) if mesh == "rectangular_phase_end" else D.rec_phase_end(res, n, D.blkMZ)
        elif mesh == "triangular":
            why = D.check_tlist(res[0], n, "tlist") or D.check_diag(res[1], n) or (None if res[2] is None else "third item not None")
            if why:
                return "structure", why
            q = D.rec_triangular(res, n)
        elif mesh in ("triangular_compact", "rectangular_compact"):
            why = D.compact_keys_ok(res, mesh)
            if why:
                return "structure", why
            q = D.rec_triangular_compact(res) if mesh == "triangular_compact" else D.rec_rectangular_compact(res)
        else:
            params, phase = res
            modes = [(int(m[0]), int(m[1])) for m, _ in params]
            if modes != D.sun_schedule(n):
                return "structure", f"SU(2) factors on {modes[:6]}.., documented order {D.sun_schedule(n)[:6]}.."
            if not np.all(np.isfinite([x for _, p in params for x in p])) or (phase is not None and not np.isfinite(phase)):
                return "structure", "non-finite parameters"
            q = D.rec_sun(res, n)
    except Exception as e:                                      # noqa: BLE001
        return "structure", f"result not of the documented form ({type(e).__name__}: {str(e)[:60]})"
    e = err(q, U)
    # with a caller-supplied tolerance the special cases may neglect what is below it
    if not e < max(TOL, 10 * max([TOL / 10] + [v for v in kw.values() if isinstance(v, float)])):
        return "reconstruction", f"|product - U| = {e:.3g}"
    return None


def check_takagi(dec, A, **kw):
    n = A.shape[0]
    try:
        rl, U = call(dec.takagi, A, **kw)
    except Exception as e:                                      # noqa: BLE001
        return "raised", f"{type(e).__name__}: {str(e)[:80]}"
    rl, U = np.asarray(rl), np.asarray(U)
    sc = max(1.0, float(np.max(np.abs(A), initial=0)))
    if rl.shape != (n,) or U.shape != (n, n):
        return "structure", f"shapes {rl.shape} {U.shape}"
    if np.iscomplexobj(rl) and np.max(np.abs(rl.imag)) > 0 or np.any(rl.real < 0) or np.any(np.diff(rl.real) > 1e-9 * sc):
        return "diagonal", f"singular values not non-negative and decreasing: {rl}"
    e2 = err(U @ U.conj().T, np.identity(n))
    if not e2 < TOL:
        return "unitarity", f"|U U^+ - 1| = {e2:.3g}"
    e1 = err(U @ np.diag(rl) @ U.T, A) / sc
    if not e1 < TOL + 10.0 ** (-kw.get("rounding", 13)):       # the returned values are rounded to `rounding` decimals
        return "reconstruction", f"|U diag U^T - N| = {e1:.3g} (scale {sc:.3g})"
    return None


def check_williamson(dec, V):
    n = V.shape[0] // 2
    try:
        Db, S = call(dec.williamson, V)
    except Exception as e:                                      # noqa: BLE001
        return "raised", f"{type(e).__name__}: {str(e)[:80]}"
    O = D.sympmat(n)
    sc = max(1.0, float(np.max(np.abs(V))))
    if Db.shape != V.shape or S.shape != V.shape or np.iscomplexobj(S) or np.iscomplexobj(Db):
        return "structure", f"shapes/dtypes {Db.shape} {S.shape} {S.dtype}"
    d = np.diag(Db)
    if err(Db, np.diag(d)) > 1e-9 * sc or np.any(d <= 0) or err(d[:n], d[n:]) > TOL * sc:
        return "diagonal", f"Db is not diag(nu, nu) with nu > 0: {d}"
    if np.any(d < 1 - 1e-6) and False:
        return "diagonal", "symplectic eigenvalue < 1"
    e2 = err(S.T @ O @ S, O)
    if not e2 < TOL * max(1.0, float(np.max(np.abs(S))) ** 2):
        return "symplectic", f"|S^T Omega S - Omega| = {e2:.3g}"
    e1 = err(S @ Db @ S.T, V) / sc
    if not e1 < TOL * max(1.0, float(np.max(np.abs(S))) ** 2):
        return "reconstruction", f"|S Db S^T - V| = {e1:.3g}"
    return None


def check_bloch_messiah(dec, S):
    n = S.shape[0] // 2
    try:
        O1, Z, O2 = call(dec.bloch_messiah, S)
    except Exception as e:                                      # noqa: BLE001
        return "raised", f"{type(e).__name__}: {str(e)[:80]}"
    O = D.sympmat(n)
    sc = max(1.0, float(np.max(np.abs(S))))
    for nm, X in (("O1", O1), ("O2", O2)):
        if X.shape != S.shape or np.iscomplexobj(X):
            return "structure", f"{nm} shape/dtype {X.shape} {X.dtype}"
        e = err(X.T @ X, np.identity(2 * n))
        if not e < TOL:
            return "orthogonal", f"|{nm}^T {nm} - 1| = {e:.3g}"
        e = err(X.T @ O @ X, O)
        if not e < TOL:
            return "symplectic", f"|{nm}^T Omega {nm} - Omega| = {e:.3g}"
    d = np.diag(Z)
    if err(Z, np.diag(d)) > TOL * sc:
        return "diagonal", f"squeezing matrix not diagonal (off-diagonal {err(Z, np.diag(d)):.3g})"
    if np.any(d <= 0) or err(d[:n] * d[n:], np.ones(n)) > TOL * sc:
        return "diagonal", f"squeezing matrix not diag(s, 1/s): {d}"
    if np.any(d[:n] < 1 - TOL * sc) or np.any(np.diff(d[:n]) > TOL * sc):
        return "diagonal", f"squeezers not ordered s_1 >= ... >= s_n >= 1: {d[:n]}"
    e1 = err(O1 @ Z @ O2, S) / sc
    if not e1 < TOL:
        return "reconstruction", f"|O1 Z O2 - S| = {e1:.3g}"
    return None


def check_graph_embed(dec, A, mp, traceless):
    n = A.shape[0]
    try:
        vals, U = call(dec.graph_embed, A, mean_photon_per_mode=mp, make_traceless=traceless)
    except Exception as e:                                      # noqa: BLE001
        return "raised", f"{type(e).__name__}: {str(e)[:80]}"
    A2 = A - np.trace(A) * np.identity(n) / n if traceless else A
    vals, U = np.asarray(vals), np.asarray(U)
    if vals.shape != (n,) or U.shape != (n, n) or not np.all(np.isfinite(vals)):
        return "structure", f"shapes {vals.shape} {U.shape} / non-finite squeezing"
    e = err(U @ U.conj().T, np.identity(n))
    if not e < TOL:
        return "unitarity", f"|U U^+ - 1| = {e:.3g}"
    B = U @ np.diag(np.tanh(-vals)) @ U.T
    sc = np.vdot(A2, B).real / np.vdot(A2, A2).real
    if not sc > 0:
        return "reconstruction", f"encoded matrix is not a positive multiple of A (factor {sc:.3g})"
    e = err(B, sc * A2)
    if not e < TOL:
        return "reconstruction", f"|U tanh(r) U^T - scale*A| = {e:.3g}"
    mean = float(np.sum(np.sinh(vals) ** 2) / n)
    if not abs(mean - mp) < 1e-6 * max(1.0, mp):
        return "mean-photon", f"mean photon per mode {mean:.9g}, requested {mp}"
    return None


def check_bipartite(dec, A, mp):
    n = A.shape[0]
    try:
        vals, u, v = call(dec.bipartite_graph_embed, A, mean_photon_per_mode=mp)
    except Exception as e:                                      # noqa: BLE001
        return "raised", f"{type(e).__name__}: {str(e)[:80]}"
    vals, u, v = np.asarray(vals), np.asarray(u), np.asarray(v)
    if vals.shape != (n,) or u.shape != (n, n) or v.shape != (n, n) or not np.all(np.isfinite(vals)):
        return "structure", "shapes / non-finite squeezing"
    for nm, X in (("u", u), ("v", v)):
        e = err(X @ X.conj().T, np.identity(n))
        if not e < TOL:
            return "unitarity", f"|{nm} {nm}^+ - 1| = {e:.3g}"
    B = u @ np.diag(np.tanh(-vals)) @ v.T
    sc = np.vdot(A, B).real / np.vdot(A, A).real
    if not sc > 0:
        return "reconstruction", f"encoded matrix is not a positive multiple of A (factor {sc:.3g})"
    e = err(B, sc * A)
    if not e < TOL:
        return "reconstruction", f"|u tanh(r) v^T - scale*A| = {e:.3g}"
    mean = float(np.sum(np.sinh(vals) ** 2) / n)
    if not abs(mean - mp) < 1e-6 * max(1.0, mp):
        return "mean-photon", f"mean photon per mode {mean:.9g}, requested {mp}"
    return None


BIPARTITE_KINDS = ["complex", "real", "sym_c", "sym_r", "near_sym", "adjacency", "identity", "rank1", "diag", "perm",
                   "degenerate"]


def bipartite_case(rs, n, kind):
    if kind == "complex":
        return rs.standard_normal((n, n)) + 1j * rs.standard_normal((n, n))
    if kind == "real":
        return rs.standard_normal((n, n))
    if kind == "sym_c":
        return D.symmetric_case(rs, n, "complex")
    if kind == "sym_r":
        return D.symmetric_case(rs, n, "real")
    if kind == "near_sym":
        A = D.symmetric_case(rs, n, "real") * 10
        return A + np.triu(np.ones((n, n)), 1) * 10.0 ** (-rs.uniform(4, 9))
    if kind == "adjacency":
        return (rs.random((n, n)) < 0.5).astype(float)
    if kind == "identity":
        return np.identity(n)
    if kind == "rank1":
        return np.outer(rs.standard_normal(n), rs.standard_normal(n))
    if kind == "diag":
        return np.diag(rs.uniform(0.1, 2, n))
    if kind == "perm":
        return D.perm_matrix(rs, n, real=True)
    return D.haar(rs, n) @ np.diag(np.sort(rs.choice([1.0, 2.0], n))[::-1]) @ D.haar(rs, n)


def run_one(dec, fn, A, kw):
    """dispatch used by the generator loop and by replay; returns None or (what, detail)"""
    opts = kw.get("opts") or {}
    if fn in MESHES:
        return check_mesh(dec, fn, A, **opts)
    if fn == "takagi":
        return check_takagi(dec, A, **opts)
    if fn == "williamson":
        return check_williamson(dec, A)
    if fn == "bloch_messiah":
        return check_bloch_messiah(dec, A)
    if fn == "graph_embed":
        return check_graph_embed(dec, A, kw["mp"], kw["traceless"])
    if fn == "bipartite_graph_embed":
        return check_bipartite(dec, A, kw["mp"])
    if fn.startswith("reject:"):
        return check_reject(dec, fn[7:], A, **opts)
    if fn.startswith("accept:"):
        return check_accept(dec, fn[7:], A, **opts)
    raise KeyError(fn)


def signature(fn, what, A, kw):
    """stable classifier of a failure"""
    return f"{fn}:{what}"


def judge(ctx, dec, fn, kind, A, kw=None, mode=None):
    kw = kw or {}
    PRESENT["mode"] = mode or ("plain" if fn.startswith(("reject:", "accept:")) else ctx.rng.choice(PRESENT_MODES))
    PRESENT["modified"] = None
    try:
        out = run_one(dec, fn, A, kw)
    except Exception as e:                                      # noqa: BLE001   (never a harness crash: report the input)
        out = ("oracle-crash", f"{type(e).__name__}: {str(e)[:100]}")
    if out is None and PRESENT["modified"]:
        out = ("input-modified", PRESENT["modified"])
    used = PRESENT["mode"]
    PRESENT["mode"] = "plain"
    ctx.oracle_cases += 1
    nt = A.shape[0] >= 2 and not (A.shape[0] == A.shape[1] and np.array_equal(A, np.identity(A.shape[0])))
    ctx.count(f"oracle:{fn}:{kind}", [fn, kind, D.to_json_matrix(A), kw], nt)
    ctx.tally("present:" + used)
    if out is not None:
        what, detail = out
        ctx.tally(f"fail:{fn}:{what}")
        ctx.fail(signature(fn, what, A, kw), f"{fn} on a {A.shape[0]}x{A.shape[1]} '{kind}' input ({used} array"
                 f"{', options ' + str(kw['opts']) if kw.get('opts') else ''}): {what}: {detail}",
                 dict(fn=fn, kind=kind, kw=kw, present=used, A=D.to_json_matrix(A)))
    return out


# ---- rejection of invalid inputs

def check_reject(dec, fn, A, **opts):
    try:
        call(getattr(dec, fn), A, **opts)
    except ValueError:
        return None
    except Exception as e:                                      # noqa: BLE001
        return "wrong-exception", f"{type(e).__name__}: {str(e)[:80]} (ValueError expected)"
    return "accepted-invalid", "invalid input was decomposed instead of rejected"


def check_accept(dec, fn, A, **opts):
    """an input that is valid at the tolerance the caller asks for must not be refused"""
    try:
        call(getattr(dec, fn), A, **opts)
    except Exception as e:                                      # noqa: BLE001
        return "raised", f"{type(e).__name__}: {str(e)[:80]}"
    return None


def tol_opts(fn, tol):
    """how each routine takes its validity tolerance"""
    if fn in ("triangular_compact", "rectangular_compact", "sun_compact"):
        return dict(rtol=tol, atol=tol)
    if fn == "graph_embed":
        return dict(rtol=0.0, atol=tol)
    return dict(tol=tol)


def invalid_unitaries(rs, n):
    U = D.haar(rs, n)
    e0, e1 = np.identity(n)[0], np.identity(n)[n - 1]
    return {"scaled": U * (1 + 1e-6), "random": rs.standard_normal((n, n)) + 1j * rs.standard_normal((n, n)),
            "zero": np.zeros((n, n)), "wide": U[:n - 1, :], "tall": U[:, :n - 1],
            "col_scaled": U @ np.diag([1] * (n - 1) + [1 + 1e-5]), "rank_def": U @ np.diag([1] * (n - 1) + [0]),
            "entry": U + 1e-6 * np.outer(e0, e1), "real_nonorth": rs.standard_normal((n, n)), "2I": 2 * np.identity(n)}


def oracle_reject(ctx, dec):
    rs = ctx.nprng(5)
    for _ in range(ctx.n(100, 1000)):
        n = int(rs.integers(3, 7))
        for kind, A in invalid_unitaries(rs, n).items():
            for m in MESHES:
                judge(ctx, dec, "reject:" + m, kind, A)
        S = D.symmetric_case(rs, n, "complex")
        anti = np.triu(np.ones((n, n)), 1) - np.tril(np.ones((n, n)), -1)
        for kind, A in {"nonsym": S + 1e-6 * np.triu(np.ones((n, n)), 1), "antisym_part": S + 1j * anti,
                        "hermitian": S + S.conj().T + 1j * anti, "wide": S[:n - 1], "random": rs.standard_normal((n, n))}.items():
            judge(ctx, dec, "reject:takagi", kind, A)
            judge(ctx, dec, "reject:graph_embed", kind, A)
        judge(ctx, dec, "reject:bipartite_graph_embed", "wide", S[:n - 1])
        V = D.cov_case(rs, n, "generic")
        w, v = np.linalg.eigh(V)
        N2 = 2 * n
        for kind, A in {"nonsym": V + 1e-6 * np.triu(np.ones((N2, N2)), 1), "odd": V[:N2 - 1, :N2 - 1], "wide": V[:N2 - 2],
                        "indefinite": v @ np.diag(np.r_[-0.5, w[1:]]) @ v.T, "negative": -V,
                        "odd_identity": np.identity(N2 + 1)}.items():
            judge(ctx, dec, "reject:williamson", kind, A)
        Sm = D.symplectic_case(rs, n, "generic")
        idx = np.arange(N2).reshape(2, n).T.flatten()
        for kind, A in {"scaled": Sm * (1 + 1e-6), "odd": np.identity(N2 - 1), "wide": Sm[:N2 - 2],
                        "random": rs.standard_normal((N2, N2)), "orthogonal_nonsymplectic": D.rand_orth(rs, N2),
                        "xpxp_ordered": Sm[np.ix_(idx, idx)] if n >= 2 else 2 * np.identity(2),
                        "entry": Sm + 1e-6 * np.outer(np.identity(N2)[0], np.identity(N2)[1])}.items():
            judge(ctx, dec, "reject:bloch_messiah", kind, A)


def oracle_valid(ctx, dec):
    rs = ctx.nprng(3)
    big = ctx.tier != "quick"
    # meshes
    for it in range(ctx.n(2200, 24000)):
        kind = D.UNITARY_KINDS[it % len(D.UNITARY_KINDS)]
        n = int(rs.integers(1, 9)) if (it // len(D.UNITARY_KINDS)) % 4 else int(rs.integers(1, 5))
        if big and it % 50 == 0:
            n = int(rs.integers(9, 15))
        if kind == "givens" and n < 2:
            n = 2
        U = D.unitary_case(rs, n, kind)
        for mesh in MESHES:
            if mesh == "sun_compact" and n < 3:
                continue
            judge(ctx, dec, mesh, kind, U)
    # takagi
    for it in range(ctx.n(5200, 60000)):
        kind = D.SYMMETRIC_KINDS[it % len(D.SYMMETRIC_KINDS)]
        n = int(rs.integers(1, 9))
        judge(ctx, dec, "takagi", kind, D.symmetric_case(rs, n, kind))
    # williamson
    for it in range(ctx.n(2000, 24000)):
        kind = D.COV_KINDS[it % len(D.COV_KINDS)]
        n = int(rs.integers(1, 6))
        judge(ctx, dec, "williamson", kind, D.cov_case(rs, n, kind))
    # bloch-messiah
    for it in range(ctx.n(3000, 32000)):
        kind = D.SYMPLECTIC_KINDS[it % len(D.SYMPLECTIC_KINDS)]
        n = int(rs.integers(1, 6))
        judge(ctx, dec, "bloch_messiah", kind, D.symplectic_case(rs, n, kind))
    # graph embeddings
    for it in range(ctx.n(2200, 24000)):
        kind = D.SYMMETRIC_KINDS[it % len(D.SYMMETRIC_KINDS)]
        n = int(rs.integers(1, 8))
        A = D.symmetric_case(rs, n, kind)
        traceless = bool(rs.integers(0, 2))
        A2 = A - np.trace(A) * np.identity(n) / n if traceless else A
        if np.max(np.abs(A2), initial=0) < 1e-6:        # the zero matrix cannot reach any mean photon number
            continue
        mp = float(rs.choice([0.1, 0.5, 1.0, 2.5]))
        judge(ctx, dec, "graph_embed", kind, A, dict(mp=mp, traceless=traceless))
    for it in range(ctx.n(2200, 24000)):
        kind = BIPARTITE_KINDS[it % len(BIPARTITE_KINDS)]
        n = int(rs.integers(1, 8))
        A = bipartite_case(rs, n, kind)
        if np.max(np.abs(A), initial=0) < 1e-6:
            continue
        judge(ctx, dec, "bipartite_graph_embed", kind, A, dict(mp=float(rs.choice([0.1, 0.5, 1.0, 2.5]))))


def oracle_options(ctx, dec):
    """the validity tolerance is an option of every routine: a stricter value must reject what the default accepts, a
    looser one must accept what the default rejects, and it must reach the inner calls (rectangular_phase_end ->
    rectangular, rectangular_symmetric -> rectangular_MZ, the recursion of sun_compact); decompositions of valid
    inputs must not depend on it"""
    rs = ctx.nprng(23)
    for _ in range(ctx.n(25, 150)):
        n = int(rs.integers(3, 8))
        U = D.haar(rs, n)
        for m in MESHES:
            judge(ctx, dec, "reject:" + m, "opt:strict-tol", U * (1 + 1e-12), dict(opts=tol_opts(m, 1e-14)))
            judge(ctx, dec, "accept:" + m, "opt:loose-tol", U * (1 + 1e-6), dict(opts=tol_opts(m, 1e-4)))
            kind = str(rs.choice(["haar", "near_identity", "near_perm", "block", "givens"]))
            V = D.unitary_case(rs, n, kind)
            judge(ctx, dec, m, "opt:" + kind, V, dict(opts=tol_opts(m, float(rs.choice([1e-9, 1e-10, 1e-13])))))
        # determinant phase (and leading entries) between the hard-wired 1e-10 of the SU(2) extraction and the caller's
        # tolerance; 1e-6 is what ops.Interferometer passes
        phi = 10.0 ** (-rs.uniform(6.5, 9.7))
        W = D.haar(rs, n)
        W = W * (np.linalg.det(W) ** (-1 / n)) * np.exp(1j * phi / n)
        for m in ("sun_compact", "rectangular_compact", "triangular_compact"):
            judge(ctx, dec, m, "opt:det-phase-below-tol", W, dict(opts=tol_opts(m, 1e-6)))
            judge(ctx, dec, m, "opt:near-identity-loose-tol", D.unitary_case(rs, n, "near_identity"), dict(opts=tol_opts(m, 1e-6)))
            judge(ctx, dec, m, "opt:near-perm-loose-tol", D.unitary_case(rs, n, "near_perm"), dict(opts=tol_opts(m, 1e-6)))
        S = D.symmetric_case(rs, n, "complex")
        asym = np.triu(np.ones((n, n)), 1)
        judge(ctx, dec, "reject:takagi", "opt:strict-tol", S + 1e-15 * asym * (1 + n), dict(opts=dict(tol=1e-16)))
        judge(ctx, dec, "accept:takagi", "opt:loose-tol", S + 1e-9 * asym, dict(opts=dict(tol=1e-6)))
        judge(ctx, dec, "takagi", "opt:rounding", D.symmetric_case(rs, n, str(rs.choice(["complex", "degenerate_c", "gap_sweep"]))),
              dict(opts=dict(rounding=int(rs.choice([6, 9, 15])))))
        V = D.cov_case(rs, min(n, 4), "generic")
        N2 = V.shape[0]
        judge(ctx, dec, "reject:williamson", "opt:strict-tol", V + 1e-13 * np.triu(np.ones((N2, N2)), 1), dict(opts=dict(tol=1e-15)))
        judge(ctx, dec, "accept:williamson", "opt:loose-tol", V + 1e-9 * np.triu(np.ones((N2, N2)), 1), dict(opts=dict(tol=1e-6)))
        Sm = D.symplectic_case(rs, min(n, 4), "generic")
        judge(ctx, dec, "reject:bloch_messiah", "opt:strict-tol", Sm * (1 + 1e-12), dict(opts=dict(tol=1e-14)))
        judge(ctx, dec, "accept:bloch_messiah", "opt:loose-tol", Sm * (1 + 1e-8), dict(opts=dict(tol=1e-4)))
        judge(ctx, dec, "reject:graph_embed", "opt:strict-tol", S + 1e-10 * asym, dict(opts=tol_opts("graph_embed", 1e-12)))


def flat(res):
    """all numbers of a result, in order"""
    out = []

    def walk(x):
        if x is None:
            out.append(float("nan"))
        elif isinstance(x, dict):
            for k in sorted(x, key=str):
                walk(x[k])
        elif isinstance(x, (list, tuple)):
            for y in x:
                walk(y)
        else:
            a = np.asarray(x)
            if np.iscomplexobj(a):
                out.extend(a.real.ravel().tolist())
                out.extend(a.imag.ravel().tolist())
            else:
                out.extend(a.astype(float).ravel().tolist())
    walk(res)
    return np.array(out)


class ReusedBuffer:
    """stands in for the module: the routine under test is always handed the SAME array object (whose content was
    replaced in place), so that any memory keyed on the object's identity shows"""

    def __init__(self, dec, fn, buf):
        self._dec, self._fn, self._buf = dec, fn, buf

    def __getattr__(self, name):
        real = getattr(self._dec, name)
        if name != self._fn:
            return real
        return lambda X, *a, **k: real(self._buf, *a, **k)


def history_cases(rs):
    n = int(rs.integers(2, 7))
    k = int(rs.integers(1, 4))
    kind = str(rs.choice(["haar", "block", "perm_phase", "near_identity", "givens"]))
    yield from ((m, lambda r, nn=max(n, 3) if m == "sun_compact" else n, kd=kind: D.unitary_case(r, nn, kd), {}) for m in MESHES)
    yield "takagi", lambda r: D.symmetric_case(r, n, str(r.choice(["complex", "real", "degenerate_c"]))), {}
    yield "williamson", lambda r: D.cov_case(r, k, str(r.choice(["generic", "degenerate"]))), {}
    yield "bloch_messiah", lambda r: D.symplectic_case(r, k, str(r.choice(["generic", "partial", "passive", "pairs"]))), {}
    yield "graph_embed", lambda r: D.symmetric_case(r, n, "complex"), dict(mp=0.5, traceless=False)
    yield "bipartite_graph_embed", lambda r: bipartite_case(r, n, "complex"), dict(mp=1.0)


def oracle_history(ctx, dec):
    """results must not depend on earlier calls: the same input twice with another call in between gives the same
    numbers; an array object whose content is replaced in place is decomposed like a fresh array with that content"""
    rs = ctx.nprng(29)
    for _ in range(ctx.n(20, 120)):
        for fn, gen, kw in history_cases(rs):
            A, B = gen(rs), gen(rs)
            f = getattr(dec, fn)
            args = dict(mean_photon_per_mode=kw["mp"]) if "mp" in kw else {}
            if "traceless" in kw:
                args["make_traceless"] = kw["traceless"]
            ctx.oracle_cases += 1
            ctx.count(f"oracle:history:{fn}", ["history", fn, D.to_json_matrix(A), D.to_json_matrix(B)], True)
            try:
                r1 = flat(f(A.copy(), **args))
                f(B.copy(), **args)
                r2 = flat(f(A.copy(), **args))
            except Exception as e:                              # noqa: BLE001
                ctx.fail(f"{fn}:raised", f"{fn} raised {type(e).__name__}: {str(e)[:80]} in a repeated call",
                         dict(fn=fn, kind="history", kw=kw, A=D.to_json_matrix(A)))
                continue
            if r1.shape != r2.shape or not np.allclose(r1, r2, rtol=0, atol=1e-12, equal_nan=True):
                ctx.fail(f"{fn}:history-dependent", f"{fn} returns different factors for the same {A.shape[0]}x{A.shape[1]} input "
                         "after an unrelated call in between", dict(fn="history:" + fn, kind="repeat", kw=kw,
                                                                     A=D.to_json_matrix(A), B=D.to_json_matrix(B)))
                continue
            if A.shape == B.shape:
                buf = np.array(A, dtype=np.result_type(A, B))
                try:
                    f(buf, **args)
                except Exception:                               # noqa: BLE001
                    pass
                buf[...] = B
                PRESENT["mode"], PRESENT["modified"] = "plain", None
                out = run_one(ReusedBuffer(dec, fn, buf), fn, np.array(B, dtype=buf.dtype), kw)
                if out is not None:
                    ctx.fail(f"{fn}:stale-after-in-place-update", f"{fn} called on an array whose content was replaced in place "
                             f"does not decompose the new content: {out[0]}: {out[1]}",
                             dict(fn="history:" + fn, kind="reuse", kw=kw, A=D.to_json_matrix(A), B=D.to_json_matrix(B)))


def corpus(ctx, dec):
    import json
    from lib import core
    d = core.VERIF / "corpus" / "C17"
    for f in sorted(d.glob("*.json")):
        item = json.loads(f.read_text())
        judge(ctx, dec, item["fn"], "corpus:" + f.stem, D.from_json_matrix(item["A"]), item.get("kw") or {})


def run(ctx, sf):
    import strawberryfields.decompositions as dec
    corpus(ctx, dec)
    reqs, pend = [], []
    for part in (corr_blocks, corr_null, corr_schedules, corr_exact, corr_absorb, corr_takagi_order, corr_bmperm, corr_su2):
        try:
            part(ctx, dec, reqs, pend)
        except Exception as e:                                  # noqa: BLE001
            # the real code crashed inside a correspondence driver: the tie is broken; the oracles below look for an input
            ctx.notes.append(f"{part.__name__} stopped: real code raised {type(e).__name__}: {str(e)[:80]}")
            ctx.disagree(f"{part.__name__} (real code raised {type(e).__name__})", dict(error=str(e)[:200]), None, None)
            n_ok = min(len(reqs), len(pend))
            del reqs[n_ok:], pend[n_ok:]
    compare(ctx, reqs, pend)
    oracle_valid(ctx, dec)
    oracle_reject(ctx, dec)
    oracle_options(ctx, dec)
    oracle_history(ctx, dec)


def search(ctx, sf):
    run(ctx, sf)


def replay(ctx, rp):
    import strawberryfields.decompositions as dec
    fn, kw = rp["fn"], rp.get("kw") or {}
    A = D.from_json_matrix(rp["A"])
    if fn.startswith("history:"):
        fn = fn[8:]
        B = D.from_json_matrix(rp["B"])
        f = getattr(dec, fn)
        args = dict(mean_photon_per_mode=kw["mp"]) if "mp" in kw else {}
        if "traceless" in kw:
            args["make_traceless"] = kw["traceless"]
        if rp.get("kind") == "repeat":
            r1 = flat(f(A.copy(), **args))
            f(B.copy(), **args)
            r2 = flat(f(A.copy(), **args))
            bad = r1.shape != r2.shape or not np.allclose(r1, r2, rtol=0, atol=1e-12, equal_nan=True)
            print("   ", fn, "repeat differs" if bad else "repeat equal")
            return bad
        buf = np.array(A, dtype=np.result_type(A, B))
        try:
            f(buf, **args)
        except Exception:                                       # noqa: BLE001
            pass
        buf[...] = B
        out = run_one(ReusedBuffer(dec, fn, buf), fn, np.array(B, dtype=buf.dtype), kw)
    else:
        PRESENT["mode"], PRESENT["modified"] = rp.get("present", "plain"), None
        out = run_one(dec, fn, A, kw)
        if out is None and PRESENT["modified"]:
            out = ("input-modified", PRESENT["modified"])
        PRESENT["mode"] = "plain"
    if out:
        print("   ", fn, out[0], out[1])
    return out is not None
