"""C19 — GBS application helpers are combinatorially exact and structurally sound.

(a) correspondence: the functions of apps/similarity.py, clique.py, subgraph.py, sample.py against the Lean model
    SFV.Model.Apps on the same inputs, numpy.random.choice replaced by a script both sides follow;
(b) oracle: the property itself on the real code -- exact integer counts, brute-force graph checks, and
    "the result is reachable by a run that obeys the documented selection rule" (lib/apps_k6.py);
(c) replay of stored failing inputs."""
import itertools
import json
from fractions import Fraction
from pathlib import Path

import numpy as np

from lib import apps_k6 as K
from lib import apps_k6b as K2
from lib import core

RULE = ("similarity: every photon number 0..N (N=22 quick / 40 thorough) for orbits; orbits x mode counts 1..220 "
        "(crossing 170 and 2^53) incl. orbits longer than the mode count; events n<=14, modes<=200; random samples. "
        "graphs: G(n,p) without self-loops, n=1..8 labelled 0..n-1 for the scripted model comparison (thorough: every "
        "graph on <=5 nodes), n<=14 with shuffled / sparse labels for the oracle; seeds = random cliques, random "
        "subsets, non-cliques, foreign nodes; selection uniform / degree / integer weight vectors with ties, wrong "
        "length; resize ranges incl. invalid ones.  Non-trivial = graph with >=3 nodes and >=1 edge, or orbit with "
        ">=2 parts, or photon number >=2; distinct by (function, canonical input).")
ASSUMPTIONS = ["graphs are simple (no self-loops), node labels are non-negative integers",
               "numpy.random.choice returns a position / element of what it is offered (the theorems quantify over every "
               "such choice function; uniformity of the choice is not examined)",
               "orbits(0) yields the single orbit [0] (zero photons written as one zero part); the theorems state this "
               "separately from the photon numbers >= 1",
               "samples are non-empty lists of non-negative integers; max_count >= 1 in the top lists"]
TRUSTED = ["modelled: similarity.{orbits, orbit_cardinality, event_cardinality, sample_to_orbit, sample_to_event}, "
           "clique.{is_clique, c_0, c_1, grow, swap, shrink}, subgraph.{resize, _update_subgraphs_list, _update_dict, search}, "
           "sample.{postselect, modes_from_counts, to_subgraphs}; NetworkX supplies adjacency, degrees, subgraph views and "
           "density (density re-computed exactly by the oracle)",
           "the imperative transcription of the partition generator (orbitsImp) is compared with the structurally "
           "recursive enumeration the theorems are about on every run (driver returns both), not proved equal",
           "index-scripted comparison of swap/shrink/resize/search is run where set-iteration order is ascending "
           "(labels 0..7); other labelings are covered by the oracle only"]

ERR = {"Input is not a valid subgraph": "notSubgraph", "Input subgraph is not a clique": "notClique",
       "Number of node weights must match number of nodes": "weightLen",
       "Node selection method not recognized": "notRecognized", "min_size must be at least 1": "minSize",
       "max_size must be less than number of nodes in graph": "maxSize",
       "max_size must not be less than min_size": "maxLtMin",
       "Number of iterations must be a positive int": "iterations"}


def canon(st, r, f=lambda x: x):
    if st == "ok":
        return {"ok": f(r)}
    if st == "ValueError":
        return {"err": ERR.get(r, "other:" + r)}
    return {"err": st + ":" + r}


def ints(x):
    return [int(v) for v in x]


def frac(d):
    f = Fraction(float(d)).limit_denominator(4096)
    return [f.numerator, f.denominator]


class Batch:
    def __init__(self, ctx):
        self.ctx, self.reqs, self.meta = ctx, [], []

    def add(self, pair, req, impl, case=None, norm=None):
        self.reqs.append(req)
        self.meta.append((pair, case if case is not None else req, impl, norm))
        if len(self.reqs) >= 4000:
            self.flush()

    def flush(self):
        if not self.reqs:
            return
        res = self.ctx.lean(self.reqs)
        for (pair, case, impl, norm), model in zip(self.meta, res):
            self.ctx.corr_cases += 1
            if norm is not None and isinstance(model, dict) and "ok" in model:
                model = {"ok": norm(model["ok"])}
            impl_c = json.loads(json.dumps(impl, default=core._jsonable))
            if model != impl_c:
                self.ctx.disagree(pair, case, model, impl_c)
                self.ctx.tally("disagree:" + pair)
        self.reqs, self.meta = [], []


# ------------------------------------------------------------------------------------------ generators


def rand_partition(rng, n):
    parts = []
    while n > 0:
        k = rng.randint(1, min(n, rng.choice([1, 2, 3, 6, n])))
        parts.append(k)
        n -= k
    return sorted(parts, reverse=True)


def rand_sample(rng):
    m = rng.randint(1, 9)
    hi = rng.choice([1, 2, 3, 5])
    return [rng.randint(0, hi) if rng.random() < 0.6 else 0 for _ in range(m)]


def rand_seed_set(rng, gd, kind):
    nodes = gd["nodes"]
    if kind == "clique":
        return K.rand_clique(rng, gd)
    if kind == "subset":
        return rng.sample(nodes, rng.randint(0, len(nodes)))
    if kind == "dup":
        s = rng.sample(nodes, rng.randint(1, len(nodes)))
        return s + [s[0]]
    return rng.sample(nodes, rng.randint(0, max(0, len(nodes) - 1))) + [max(nodes) + 1 + rng.randint(0, 2)]  # foreign


def rand_sel(rng, gd, allow_degree=True, p_bad=0.04):
    sel = K.rand_sel(rng, gd, allow_degree)
    if isinstance(sel, dict) and rng.random() < p_bad:
        sel = dict(w=sel["w"] + [1]) if rng.random() < 0.5 else dict(w=sel["w"][:-1])
    return sel


def rand_picks(rng, k=14):
    return [rng.randint(0, 6) for _ in range(k)]


def rand_range(rng, n, p_bad=0.1):
    if rng.random() < p_bad:
        return rng.choice([(0, max(1, n - 1)), (1, n), (2, n + 1), (3, 2), (0, 0)])
    if n <= 1:
        return (1, 1)
    lo = rng.randint(1, n - 1)
    return lo, rng.randint(lo, n - 1)


def nontrivial_graph(gd):
    return len(gd["nodes"]) >= 3 and len(gd["edges"]) >= 1


# ------------------------------------------------------------------------------------------ similarity


def corr_similarity(ctx, B):
    from strawberryfields.apps import similarity
    rng = ctx.rng
    N = ctx.n(22, 40) if ctx.boost == 1 else 30
    for n in range(0, min(N, 45) + 1):
        got = [ints(o) for o in similarity.orbits(n)]
        B.add("orbits", dict(op="apps.orbits", n=n), dict(imp=got, rec=got))
        ctx.count("orbits", ("orbits", n), n >= 2)
        K.chk_orbits(ctx, dict(n=n))
    for _ in range(ctx.n(2500, 8000)):
        s = rand_sample(rng)
        m = rng.randint(0, 5)
        B.add("sample_to_orbit", dict(op="apps.sampleToOrbit", s=s), ints(similarity.sample_to_orbit(list(s))))
        B.add("sample_to_event", dict(op="apps.sampleToEvent", s=s, m=m), similarity.sample_to_event(list(s), m))
        K.chk_sample_conv(ctx, dict(s=s, m=m))
        ctx.count("sample", ("sample", s, m), sum(s) >= 2, sample=dict(s=s, m=m))
    for i in range(ctx.n(5000, 30000)):
        n = rng.randint(1, rng.choice([4, 8, 12, 25]))
        orbit = rand_partition(rng, n)
        r = rng.random()
        if r < 0.12:
            modes = rng.randint(0, len(orbit))            # orbit does not fit (or just fits)
        elif r < 0.6:
            modes = len(orbit) + rng.randint(0, 30)
        else:
            modes = rng.choice([rng.randint(1, 170), rng.randint(165, 175), rng.randint(171, 220)])
        case = dict(orbit=orbit, modes=modes)
        st, got = K._call(similarity.orbit_cardinality, list(orbit), modes)
        impl = got if st != "ok" else (int(got) if (isinstance(got, (int, np.integer)) or (np.isfinite(got) and got == int(got))) else repr(got))
        B.add("orbit_cardinality", dict(op="apps.orbitCard", **case), impl)
        K.chk_orbit_card(ctx, case)
        ctx.count("orbit_card", ("oc", orbit, modes), len(orbit) >= 2, sample=case)
        ctx.tally("orbit_card:short" if modes < len(orbit) else "orbit_card:modes>170" if modes > 170 else "orbit_card:fits")
    # the documented probes, always
    for orbit, modes in (([2, 1, 1], 25), ([2, 1], 1), ([1, 1], 171), ([3, 2, 1, 1], 200), ([1], 0), ([5, 5, 5, 4, 1], 30)):
        K.chk_orbit_card(ctx, dict(orbit=orbit, modes=modes))
    for _ in range(ctx.n(250, 1500)):
        n = rng.randint(0, rng.choice([5, 9, 14]))
        m = rng.randint(1, max(1, n))
        modes = rng.choice([rng.randint(1, 12), rng.randint(1, 60), rng.randint(150, 200)])
        case = dict(n=n, m=m, modes=modes)
        st, got = K._call(similarity.event_cardinality, n, m, modes)
        impl = got if st != "ok" else (int(got) if (isinstance(got, (int, np.integer)) or (np.isfinite(got) and got == int(got))) else repr(got))
        B.add("event_cardinality", dict(op="apps.eventCard", **case), impl)
        K.chk_event_card(ctx, case)
        ctx.count("event_card", ("ec", n, m, modes), n >= 2, sample=case)
    # the specification object of the cardinality theorems against brute force
    for _ in range(ctx.n(150, 600)):
        s = [rng.randint(0, 3) for _ in range(rng.randint(0, 7))]
        B.add("dperms-vs-bruteforce", dict(op="apps.dpermsLen", s=s), len(set(itertools.permutations(s))))


# ------------------------------------------------------------------------------------------ graphs


def corr_graph_case(ctx, B, gd, rng, heavy=True):
    """all graph functions on one graph (labels 0..n-1 ascending): model vs code, oracle on the same call"""
    from strawberryfields.apps import clique, subgraph
    g = K.mk_graph(gd)
    n = len(gd["nodes"])
    nt = nontrivial_graph(gd)
    # is_clique, c_0, c_1
    for kind in ("clique", "subset"):
        S = rand_seed_set(rng, gd, kind)
        B.add("is_clique", dict(op="apps.isClique", g=gd, S=S),
              dict(count=bool(clique.is_clique(g.subgraph(S))), pair=K.bf_is_clique(K.adjsets(gd), set(S))))
        st, r = K._call(clique.c_0, list(S), g)
        B.add("c_0", dict(op="apps.c0", g=gd, S=S), canon(st, r, lambda x: sorted(ints(x))))
        st, r = K._call(clique.c_1, list(S), g)
        B.add("c_1", dict(op="apps.c1", g=gd, S=S), canon(st, r, lambda x: sorted([int(a), int(b)] for a, b in x)),
              norm=sorted)   # the order of C1 is left to set iteration: compared as a set
        K.chk_is_clique(ctx, dict(g=gd, S=S))
        ctx.count("is_clique/c0/c1:" + kind, ("isc", gd, S), nt)
    # grow / swap
    for fn, chk in (("grow", K.chk_grow), ("swap", K.chk_swap)):
        kind = rng.choice(["clique"] * 8 + ["subset", "dup", "foreign"])
        S = rand_seed_set(rng, gd, kind)
        if fn == "swap" and kind == "clique" and rng.random() < 0.5:   # swaps need a maximal-ish clique
            with K.scripted(rand_picks(rng)):
                st, r = K._call(clique.grow, list(S), g)
            S = ints(r) if st == "ok" else S
            if S and rng.random() < 0.3:
                S = S[:-1]
        sel = rand_sel(rng, gd)
        case = dict(g=gd, S=S, sel=sel, picks=rand_picks(rng))
        st, r = chk(ctx, case)
        B.add(fn, dict(op="apps." + fn, **case), canon(st, r, ints))
        ctx.count(f"{fn}:{kind}:{sel if isinstance(sel, str) else 'weight'}", (fn, case), nt, sample=case)
        ctx.tally(f"{fn}:" + ("ok" if st == "ok" else "error"))
    # shrink
    kind = rng.choice(["subset"] * 8 + ["clique", "dup", "foreign"])
    S = rand_seed_set(rng, gd, kind)
    sel = rand_sel(rng, gd, allow_degree=rng.random() < 0.15)
    case = dict(g=gd, S=S, sel=sel, picks=rand_picks(rng))
    if sel == "degree":   # documented only for uniform / weights: compare, do not judge
        with K.scripted(case["picks"]):
            st, r = K._call(clique.shrink, list(S), g, node_select="degree")
    else:
        st, r = K.chk_shrink(ctx, case)
    B.add("shrink", dict(op="apps.shrink", **case), canon(st, r, ints))
    ctx.count(f"shrink:{kind}:{sel if isinstance(sel, str) else 'weight'}", ("shrink", case), nt, sample=case)
    ctx.tally("shrink:" + ("ok" if st == "ok" else "error"))
    if not heavy:
        return
    # clique.search: several rounds of grow + swap with one script of choices
    kind = rng.choice(["clique"] * 9 + ["subset", "foreign"])
    S = rand_seed_set(rng, gd, kind)
    if kind == "clique" and len(S) > 2:
        S = S[:rng.randint(1, 2)]
    sel = rand_sel(rng, gd)
    case = dict(g=gd, S=S, sel=sel, picks=rand_picks(rng, 40), iterations=rng.choice([0, 1, 2, 2, 3, 3, 4, 6]))
    st, r = K2.chk_clique_search(ctx, case)
    B.add("clique.search", dict(op="apps.cliqueSearch", g=gd, S=S, sel=sel, picks=case["picks"], it=case["iterations"]),
          canon(st, r, ints), case)
    ctx.count(f"clique_search:{kind}:{sel if isinstance(sel, str) else 'weight'}", ("csearch", case), nt, sample=case)
    # resize
    kind = rng.choice(["subset"] * 9 + ["dup", "foreign"])
    S = rand_seed_set(rng, gd, kind)
    lo, hi = rand_range(rng, n)
    sel = rand_sel(rng, gd, allow_degree=rng.random() < 0.05)
    case = dict(g=gd, S=S, min=lo, max=hi, sel=sel, picks=rand_picks(rng))
    st, r = K.chk_resize(ctx, case)
    B.add("resize", dict(op="apps.resize", **case),
          canon(st, r, lambda d: sorted([int(k), ints(v)] for k, v in d.items())), case, norm=sorted)
    ctx.count(f"resize:{kind}:{sel if isinstance(sel, str) else 'weight'}", ("resize", case), nt, sample=case)
    ctx.tally("resize:" + ("ok" if st == "ok" else "error"))
    # search
    if n >= 2 and rng.random() < 0.5:
        subs = [rand_seed_set(rng, gd, "subset") for _ in range(rng.randint(1, 5))]
        lo, hi = rand_range(rng, n, p_bad=0.03)
        sel = rand_sel(rng, gd, allow_degree=False, p_bad=0.02)
        case = dict(g=gd, subs=subs, min=lo, max=hi, maxCount=rng.randint(1, 3), sel=sel, picks=rand_picks(rng, 40))
        st, r = K.chk_search(ctx, case)
        B.add("search", dict(op="apps.search", **case),
              canon(st, r, lambda d: sorted([int(k), [[frac(x), ints(s)] for x, s in v]] for k, v in d.items())), case,
              norm=sorted)
        ctx.count("search", ("search", case), nt, sample=case)
        ctx.tally("search:" + ("ok" if st == "ok" else "error"))


def corr_update_list(ctx, B):
    from strawberryfields.apps import subgraph
    rng = ctx.rng
    for _ in range(ctx.n(300, 2000)):
        mc = rng.randint(1, 4)
        pool = {}
        items = []
        for _ in range(rng.randint(1, 9)):
            s = rng.sample(range(6), 3)
            if rng.random() < 0.2:
                s = s + [s[0]]
            k = pool.setdefault(frozenset(s), rng.randint(0, 4) * 4)
            items.append([k, s])
        coins = [rng.randint(0, 1) for _ in range(len(items))]
        case = dict(max=mc, items=items, coins=coins)
        if rng.random() < 0.5:     # nearly tied densities at several scales (the model compares their ranks)
            kind = rng.choice([k for k in K.NEAR_TIE_KINDS if k not in ("neg7", "negbig", "zeromix")])
            case["values"] = K.near_tie_values(rng, kind, list(range(17)))
            for it in items:
                it[0] //= 4
        vals = case.get("values")
        dens = (lambda k: vals[k]) if vals else (lambda k: k / 16)
        back = {dens(k): k for k in range(17)}
        K.chk_update_list(ctx, case)
        # step-wise comparison with the model
        lst = []
        with K.scripted(coins) as sc:
            for k, s in items:
                before = [[back[d], ints(x)] for d, x in lst]
                k0 = sc.k
                coin = bool(coins[k0] % 2) if k0 < len(coins) else False
                subgraph._update_subgraphs_list(lst, (dens(k), list(s)), mc)
                after = [[back.get(d, -1), ints(x)] for d, x in lst]
                B.add("_update_subgraphs_list", dict(op="apps.updateList", l=before, t=[k, s], max=mc, coin=coin),
                      dict(l=after, used=sc.k > k0))
        ctx.count("update_list", ("ul", case), len(items) >= 3, sample=case)


def corr_sample(ctx, B):
    from strawberryfields.apps import sample
    rng = ctx.rng
    for i in range(ctx.n(300, 2000)):
        n = rng.randint(1, 9)
        gd = K.rand_graph(rng, n, labels=rng.choice(["range", "range", "shuffled", "sparse"]))
        samples = [[rng.choice([0, 0, 1, 1, 2]) for _ in range(n)] for _ in range(rng.randint(0, 5))]
        lo = rng.randint(0, 3)
        hi = lo + rng.randint(0, 4)
        case = dict(g=gd, samples=samples, min=lo, max=hi)
        ps, sg = K.chk_sample_post(ctx, case)
        B.add("postselect", dict(op="apps.postselect", samples=samples, min=lo, max=hi), [ints(s) for s in ps])
        B.add("to_subgraphs", dict(op="apps.toSubgraphs", g=gd, samples=samples), [sorted(ints(s)) for s in sg])
        for s in samples[:2]:
            B.add("modes_from_counts", dict(op="apps.modesFromCounts", s=s), ints(sample.modes_from_counts(list(s))))
        ctx.count("sample_post:" + ("range" if gd["nodes"] == list(range(n)) else "relabelled"), ("sp", case), n >= 3)


def oracle_big(ctx):
    """oracle only: larger graphs, shuffled insertion order, sparse labels (orders left to set iteration)"""
    rng = ctx.rng
    for i in range(ctx.n(2400, 16000)):
        n = rng.randint(2, ctx.n(11, 14) if ctx.boost == 1 else 11)
        gd = K.rand_graph(rng, n, labels=rng.choice(["range", "shuffled", "sparse"]))
        if rng.random() < 0.25:     # edge attributes ("weight") must not influence degrees or densities
            gd["ew"] = [rng.choice([0.5, 2, 3, 10]) for _ in gd["edges"]]
        lab = "range" if gd["nodes"] == sorted(gd["nodes"]) else "relabelled"
        nt = nontrivial_graph(gd)
        S = rand_seed_set(rng, gd, "clique")
        sel = rand_sel(rng, gd, p_bad=0)
        K.chk_grow(ctx, dict(g=gd, S=S, sel=sel, picks=rand_picks(rng)))
        K.chk_swap(ctx, dict(g=gd, S=S, sel=rand_sel(rng, gd, p_bad=0), picks=rand_picks(rng)))
        K.chk_is_clique(ctx, dict(g=gd, S=rand_seed_set(rng, gd, rng.choice(["clique", "subset"]))))
        S2 = rand_seed_set(rng, gd, "subset")
        K.chk_shrink(ctx, dict(g=gd, S=S2, sel=rand_sel(rng, gd, False, p_bad=0), picks=rand_picks(rng)))
        lo, hi = rand_range(rng, n, p_bad=0.02)
        K.chk_resize(ctx, dict(g=gd, S=rand_seed_set(rng, gd, "subset"), min=lo, max=hi,
                               sel=rand_sel(rng, gd, False, p_bad=0), picks=rand_picks(rng, 20)))
        if i % 3 == 0:
            K2.chk_clique_search(ctx, dict(g=gd, S=S, sel=rand_sel(rng, gd, p_bad=0), picks=rand_picks(rng, 40),
                                           iterations=rng.randint(1, 6)))
            subs = [rand_seed_set(rng, gd, "subset") for _ in range(rng.randint(1, 4))]
            if rng.random() < 0.15:    # documented default max_count = 10, with enough seeds to fill a list
                subs = [rand_seed_set(rng, gd, "subset") for _ in range(rng.randint(12, 18))]
            K.chk_search(ctx, dict(g=gd, subs=subs, min=lo, max=hi, maxCount=rng.randint(1, 3),
                                   default_max_count=len(subs) >= 12,
                                   sel=rand_sel(rng, gd, False, p_bad=0), picks=rand_picks(rng, 200 if len(subs) >= 12 else 60)))
        ctx.count("oracle-graph:" + lab, ("big", gd, S, S2), nt)


def oracle_clique_search(ctx):
    """clique.search on graphs where several rounds happen and the candidates differ in degree / weight"""
    rng = ctx.rng
    for i in range(ctx.n(700, 4000)):
        n = rng.randint(6, 12)
        gd = K.rand_graph(rng, n, labels=rng.choice(["range", "shuffled", "sparse"]))
        r = rng.random()
        S = K.rand_clique(rng, gd)
        if r < 0.7:
            S = S[:rng.randint(1, 2)]          # small seed: growth and swaps have room
        sel = rand_sel(rng, gd, p_bad=0.01)
        case = dict(g=gd, S=S, sel=sel, picks=rand_picks(rng, 60), iterations=rng.choice([1, 2, 2, 3, 3, 4, 5, 6, 0, -1]))
        if sel == "uniform" and rng.random() < 0.5:
            case["default_sel"] = True
        K2.chk_clique_search(ctx, case)
        ctx.count("oracle-clique-search:" + (sel if isinstance(sel, str) else "weight"), ("ocs", case), nontrivial_graph(gd))


HIST_FNS = ["search"] * 5 + ["resize"] * 3 + ["grow", "swap", "shrink", "clique_search", "c_0", "c_1", "is_clique", "to_subgraphs"]


def gen_history_case(rng):
    n = rng.randint(3, 9)
    gA = K.rand_graph(rng, n, labels=rng.choice(["range", "range", "shuffled", "sparse"]))
    nodes = gA["nodes"]
    fn = rng.choice(HIST_FNS)
    a = {}
    if fn in ("grow", "swap", "c_0", "c_1", "clique_search"):
        a["S"] = K.rand_clique(rng, gA)
        if fn == "swap" and rng.random() < 0.6:     # a maximal clique makes swaps possible
            adj = K.adjsets(gA)
            for v in nodes:
                if v not in a["S"] and all(v in adj[c] for c in a["S"]):
                    a["S"].append(v)
    elif fn in ("shrink", "is_clique", "resize"):
        a["S"] = rng.sample(nodes, rng.randint(1, n))
    if fn in ("grow", "swap", "clique_search"):
        a["sel"] = rand_sel(rng, gA, p_bad=0)
    elif fn in ("shrink", "resize", "search"):
        a["sel"] = rand_sel(rng, gA, allow_degree=False, p_bad=0)
    if fn == "clique_search":
        a["iterations"] = rng.randint(1, 4)
    focus = list(a.get("S", nodes))
    if fn == "resize":
        k = len(set(a["S"]))
        lo = max(1, min(k, n - 1) - rng.randint(0, 2))
        a["min"], a["max"] = lo, min(n - 1, max(lo, k + rng.randint(0, 2)))
    if fn == "search":
        a["subs"] = [rng.sample(nodes, rng.randint(2, max(2, n - 1))) for _ in range(rng.randint(1, 4))]
        k = min(len(a["subs"][0]), n - 1)
        lo = max(1, k - rng.randint(0, 1))
        a["min"], a["max"], a["maxCount"] = lo, min(n - 1, max(lo, k + rng.randint(0, 1))), rng.randint(1, 3)
        focus = list(a["subs"][0])
    if fn == "to_subgraphs":
        a["samples"] = [[rng.choice([0, 1, 2]) for _ in nodes] for _ in range(3)]
    # content B: toggle pairs inside the subset(s) evaluated by the first call, and a few elsewhere
    edges = {frozenset(e) for e in gA["edges"]}
    toggles = []
    for _ in range(rng.randint(1, 3)):
        if len(focus) >= 2:
            toggles.append(frozenset(rng.sample(focus, 2)))
    for _ in range(rng.randint(0, 2)):
        if n >= 2:
            toggles.append(frozenset(rng.sample(nodes, 2)))
    for t in toggles:
        if len(t) == 2:
            edges ^= {t}
    order = {v: i for i, v in enumerate(nodes)}
    gB = dict(nodes=list(nodes), edges=[sorted(e, key=order.get) for e in sorted(edges, key=lambda e: sorted(order[x] for x in e))])
    case = dict(fn=fn, g=gA, gB=gB, args=a, picks=rand_picks(rng, 40))
    if isinstance(a.get("sel"), dict) and rng.random() < 0.6:
        a2 = dict(a)
        a2["sel"] = dict(w=[rng.randint(0, 3) for _ in nodes])
        case["args2"] = a2
    return case


def oracle_history(ctx):
    rng = ctx.rng
    for i in range(ctx.n(900, 5000)):
        case = gen_history_case(rng)
        K2.chk_history(ctx, case)
        ctx.count("history:" + case["fn"], ("hist", case), nontrivial_graph(case["g"]))


def oracle_similarity_extras(ctx):
    rng = ctx.rng
    for _ in range(ctx.n(40, 200)):
        K2.chk_orbits_interleaved(ctx, dict(n1=rng.randint(0, 9), n2=rng.randint(0, 9)))
    for _ in range(ctx.n(150, 800)):
        n = rng.randint(0, 9)
        m = rng.randint(0, 4)
        modes = rng.randint(1, 9)
        K2.chk_event_to_sample(ctx, dict(n=n, m=m, modes=modes, pick=rng.randint(0, 20)))
    for _ in range(ctx.n(100, 500)):
        L = rng.randint(1, 6)
        samples = [[rng.choice([0, 0, 1, 1, 2, 3]) for _ in range(L)] for _ in range(rng.randint(1, 8))]
        orbs = [rand_partition(rng, rng.randint(1, 5)) for _ in range(rng.randint(1, 4))]
        orbs += [sorted((x for x in rng.choice(samples) if x), reverse=True) or [1]]
        case = dict(samples=samples, orbits=orbs, events=[rng.randint(0, 6) for _ in range(rng.randint(1, 4))])
        if rng.random() < 0.7:
            case["m"] = rng.randint(0, 3)
        K2.chk_feature_sampling(ctx, case)
    for _ in range(ctx.n(120, 600)):
        orbs = [rand_partition(rng, rng.randint(1, 8)) for _ in range(2)]
        ms = [rng.randint(1, 30) for _ in range(3)]
        oc = [[rng.choice(orbs), rng.choice(ms)] for _ in range(8)]
        ns, bs, md = [rng.randint(0, 7) for _ in range(2)], [rng.randint(1, 4) for _ in range(2)], [rng.randint(1, 9) for _ in range(2)]
        ec = [[rng.choice(ns), rng.choice(bs), rng.choice(md)] for _ in range(6)]
        ss = [rand_sample(rng) for _ in range(2)]
        sc = [[rng.choice(ss), rng.randint(0, 4)] for _ in range(6)]
        o2s = [[rng.choice(orbs), rng.randint(0, 10)] for _ in range(3)]
        K2.chk_similarity_sequence(ctx, dict(orbit_calls=oc, event_calls=ec, sample_calls=sc, o2s=o2s))
    ctx.count("similarity-extras", None, False)
    K2.chk_is_clique_big(ctx, dict(n=460, missing=[sorted(rng.sample(range(460), 2))]))
    K2.chk_is_clique_big(ctx, dict(n=460, missing=[]))


def corr_big_counts(ctx, B):
    """photon counts / bounds of order 1e5..1e6 that differ by one (exact integer comparisons)"""
    rng = ctx.rng
    for _ in range(ctx.n(150, 800)):
        base = rng.choice([10 ** 5, 10 ** 6, 10 ** 7])
        L = rng.randint(1, 4)
        samples = [[rng.choice([0, 0, 1, base - 1, base, base + 1]) for _ in range(L)] for _ in range(rng.randint(1, 5))]
        tot = sum(rng.choice(samples))
        lo, hi = sorted([max(0, tot + rng.randint(-1, 1)), max(0, sum(rng.choice(samples)) + rng.randint(-1, 1))])
        m = base + rng.randint(-1, 1)
        case = dict(samples=samples, min=lo, max=hi, m=m)
        ps, conv = K2.chk_big_counts(ctx, case)
        B.add("postselect", dict(op="apps.postselect", samples=samples, min=lo, max=hi), ps)
        for s, (e, o) in zip(samples, conv):
            B.add("sample_to_event", dict(op="apps.sampleToEvent", s=s, m=m), e)
            B.add("sample_to_orbit", dict(op="apps.sampleToOrbit", s=s), o)
        ctx.count("big_counts", ("bc", case), True, sample=case)


def corpus_cases():
    d = core.VERIF / "corpus" / "C19"
    for f in sorted(d.glob("*.json")):
        j = json.loads(f.read_text())
        for item in (j if isinstance(j, list) else [j]):
            yield item


def run(ctx, sf):
    for item in corpus_cases():
        K.CHECKS[item["chk"]](ctx, item["case"])
        ctx.count("corpus:" + item["chk"], ("corpus", item), True)
    B = Batch(ctx)
    if not ctx.proof_ok:
        B.add = lambda *a, **k: None      # model unavailable: oracle only
    corr_similarity(ctx, B)
    rng = ctx.rng
    if ctx.tier == "thorough" and ctx.boost == 1:
        for n in range(1, 6):
            for gd in K.all_graphs(n):
                corr_graph_case(ctx, B, gd, rng, heavy=(n >= 2))
                ctx.tally("exhaustive-graphs")
    for i in range(ctx.n(4200, 24000)):
        n = rng.choice([1, 2, 3, 4, 4, 5, 5, 6, 6, 7, 8])
        corr_graph_case(ctx, B, K.rand_graph(rng, n, "range"), rng)
    corr_update_list(ctx, B)
    corr_sample(ctx, B)
    corr_big_counts(ctx, B)
    B.flush()
    oracle_big(ctx)
    oracle_clique_search(ctx)
    oracle_history(ctx)
    oracle_similarity_extras(ctx)


def search(ctx, sf):
    run(ctx, sf)


def replay(ctx, rp):
    n0 = len(ctx.failures)
    K.CHECKS[rp["chk"]](ctx, rp["case"])
    return len(ctx.failures) > n0
