"""C02 — decomposed operations implement exactly the documented transformation.

(B) correspondence: the real `_decompose` / `Gate.decompose` templates, `Compiler.decompose` on the fock / gaussian /
bosonic tables, the mesh command builders and the emission loop of `Interferometer._decompose` against the Lean model
(`SFV/Model/Decompose.lean`) on the same inputs.
(C) oracle on the real code: every decomposable operation, decomposed by the compilers, against the independent
phase-space reference (`lib.sim` + documented blocks in `lib.dec02`) on gaussian, bosonic and fock; native vs
decomposed on back ends that have both; unitary reconstruction of every interferometer mesh from the emitted
commands; GaussianTransform / Gaussian / GraphEmbed / BipartiteGraphEmbed against the state they document."""
import itertools
import json
import math
from pathlib import Path

import numpy as np

from lib import core, dec02, sim
from lib import decomp17 as d17

RULE = ("scalar gates Xgate..Fouriergate (+DisplacedSqueezed): special (0, negative, +-pi/2, pi, 2pi) and random parameters, "
        "every ordered target choice of a 3-4 mode register behind a correlated, displaced (gaussian: also lossy) prefix, plain "
        "and daggered, hbar in {2, 1, 0.7}; interferometers: 7 meshes x drop_identity x sizes 2..6 x 14 unitary classes "
        "(Haar, identity, permutations, exact zeros, blocks, diagonal phases) on permuted target lists; Gaussian(V, r): "
        "x/p-squeezed diagonal, rotated in every quadrant, thermal, squeezed-thermal, random pure/mixed, displaced; "
        "GaussianTransform active/passive/vacuum; graph embeddings.  Non-trivial = parameters not all zero (matrix not the "
        "identity) and >= 2 modes with a correlated spectator; distinct by (operation, parameters, targets, dagger, backend).")
ASSUMPTIONS = ["transcendental links of the templates (cosh(acosh x) = x, cos(atan t) = 1/sqrt(1+t^2), half angle of atan2) "
               "enter the theorems as algebraic relations between atoms; the harness computes the atoms independently in float64",
               "Fock vs phase space: moments agree up to truncation (escalation rule: a discrepancy must survive cutoff + 6)",
               "phase-space quantities compared at 1e-8 * scale, atoms of emitted parameters at 1e-9"]
TRUSTED = ["the matrix factorisations themselves (Clements/Reck/compact meshes, Takagi, Williamson, Bloch-Messiah) are C17; here "
           "they are inputs of the emission model, and their product is re-checked numerically per call by the oracle",
           "thewalrus Fock matrices of S2gate/MZgate/BSgate (validated by native-vs-decomposed comparison on the Fock back end)",
           "lift from the action on the quadrature vector (X, d) to Gaussian states (V -> X V X^T) is standard, not formalised"]

PI = math.pi
ANGLES = [0.0, PI / 2, -PI / 2, PI, 2 * PI, PI / 4, -PI]
SCALAR2 = ["CXgate", "CZgate", "S2gate", "MZgate", "sMZgate"]
SCALAR1 = ["Xgate", "Zgate", "Pgate", "Fouriergate"]
COMPILERS = ["fock", "gaussian", "bosonic"]
MESHES = ["rectangular", "rectangular_phase_end", "rectangular_symmetric", "triangular", "rectangular_compact",
          "triangular_compact", "sun_compact"]
UKINDS = ["haar", "haar", "identity", "identity_c", "antiidentity", "perm", "perm_real", "perm_phase", "diag_phase",
          "diag_pm", "block", "block_perm", "givens2", "real_orth", "near_identity", "real_orth_float", "diag_pm_float",
          "minus_identity_float"]


def unitary(rs, n, kind):
    if kind == "givens2":
        return d17.givens_product(rs, n, 2) if n >= 2 else np.identity(1, dtype=complex)
    if kind == "real_orth":
        return d17.rand_orth(rs, n).astype(complex)
    if kind == "real_orth_float":       # real dtype: the factors start out real-valued
        return d17.rand_orth(rs, n)
    if kind == "diag_pm_float":
        return np.diag(rs.choice([1.0, -1.0], n))
    if kind == "minus_identity_float":
        return -np.identity(n)
    if kind == "near_identity":     # exp(i eps H) around the tolerance of the `identity` shortcut (1e-13) and well above it
        from scipy.linalg import expm
        H = rs.standard_normal((n, n)) + 1j * rs.standard_normal((n, n))
        H = (H + H.conj().T) / 2
        eps = float(rs.choice([3e-14, 3e-13, 1e-11, 1e-9, 1e-6, 1e-4]))
        return expm(1j * eps * H)
    U = d17.unitary_case(rs, n, kind)
    return np.asarray(U)


def ang(rng):
    return rng.choice(ANGLES) if rng.random() < 0.45 else round(rng.uniform(-3.3, 3.3), 3)


def sq(rng, hi):
    return 0.0 if rng.random() < 0.15 else round(rng.uniform(-hi, hi), 3)


def scalar_pars(rng, cls, small=True):
    hi = 0.4 if small else 1.6
    if cls in ("Xgate", "Zgate"):
        return [sq(rng, 0.6 if small else 2.0)]
    if cls in ("Pgate", "CXgate", "CZgate"):
        return [sq(rng, hi)]
    if cls == "S2gate":
        return [sq(rng, 0.3 if small else 1.0), ang(rng)]
    if cls in ("MZgate", "sMZgate"):
        return [ang(rng), ang(rng)]
    if cls == "Fouriergate":
        return []
    if cls == "DisplacedSqueezed":
        return [abs(sq(rng, 0.4)), ang(rng), sq(rng, 0.3), ang(rng)]
    if cls == "Kgate":
        return [sq(rng, 0.3)]
    if cls == "Dgate":
        return [abs(sq(rng, 0.5)), ang(rng)]
    if cls == "Rgate":
        return [ang(rng)]
    if cls == "Sgate":
        return [sq(rng, 0.3), ang(rng)]
    if cls == "BSgate":
        return [ang(rng), ang(rng)]
    if cls in ("Vacuum",):
        return []
    if cls == "Squeezed":
        return [sq(rng, 0.3), ang(rng)]
    raise KeyError(cls)


def nmodes(cls):
    return 2 if cls in SCALAR2 or cls == "BSgate" else 1


def make_op(sf, cls, pars, dagger=False):
    from strawberryfields import ops
    o = getattr(ops, cls)(*pars)
    return o.H if dagger else o


# ================================================================== (B) correspondence

def corr_templates(ctx, sf):
    """real `op.decompose(reg)` vs model templates"""
    rng = ctx.rng
    cases, reqs = [], []
    classes = SCALAR1 + SCALAR2 + ["DisplacedSqueezed", "Kgate", "Rgate"]
    for hbar in (2.0, 1.0, 0.7):
        sf.hbar = hbar
        prog = sf.Program(13)
        for cls in classes:
            for _ in range(ctx.n(6, 120)):
                pars = scalar_pars(rng, cls, small=rng.random() < 0.5)
                regs = rng.sample(range(13), nmodes(cls))        # descending and multi-digit indices included
                dagger = cls != "DisplacedSqueezed" and rng.random() < 0.5
                op = make_op(sf, cls, pars, dagger)
                try:
                    real = dec02.canon_real(op.decompose([prog.register[i] for i in regs]))
                except NotImplementedError:
                    real = None
                except Exception as e:  # noqa: BLE001
                    ctx.fail(f"raises:decompose:{cls}:{type(e).__name__}", f"{cls}{pars}.decompose raised {type(e).__name__}: {e}",
                             dict(kind="history", op=dict(cls=cls, pars=pars, dagger=dagger), k=nmodes(cls), regsA=regs,
                                  regsB=regs, big=13))
                    continue
                case = dict(cls=cls, pars=pars, regs=regs, dagger=dagger, hbar=hbar)
                cases.append((case, real))
                reqs.append(dict(op="c02.template", cls=cls, atoms=[dec02.fr(a) for a in dec02.input_atoms(cls, pars)],
                                 regs=regs, dagger=dagger, consts=dec02.consts(hbar)))
                ctx.count(f"template:{cls}", case, any(p != 0 for p in pars) or cls == "Fouriergate", sample=case)
    sf.hbar = 2.0
    for (case, real), res in zip(cases, ctx.lean(reqs)):
        ctx.corr_cases += 1
        if isinstance(res, dict) and "__error__" in res:
            ctx.disagree("decompose-template", case, res, real)
            continue
        model = None if res is None else dec02.canon_model(res)
        if (model is None) != (real is None):
            ctx.disagree("decompose-template", case, model, real)
        elif model is not None:
            d = dec02.same_cmds(model, real)
            if d:
                ctx.disagree("decompose-template", case, d, [list(x) for x in real])


def content(cmd):
    """canonical content of a real command (for matching the driver's output against the tree)"""
    cls = type(cmd.op).__name__
    if cls in dec02.MATRIX_CLASSES:
        ps = [np.round(np.asarray(p, dtype=complex), 9).tolist() for p in cmd.op.p]
        extra = [getattr(cmd.op, a, None) for a in ("mesh", "drop_identity", "vacuum", "decomp")]
    else:
        ps = [round(dec02.pval(p), 9) + 0.0 for p in cmd.op.p]
        extra = []
    return json.dumps([cls, [r.ind for r in cmd.reg], bool(getattr(cmd.op, "dagger", False)), ps, extra], default=str)


def tree_of(cmd, decs, store, depth=0):
    """expand a real command by calling its real `decompose` (whatever the tables say); the model decides what is used"""
    node = dict(id=len(store), name=type(cmd.op).__name__,
                nodecomp=bool(hasattr(cmd.op, "decomp") and not cmd.op.decomp))
    store.append(content(cmd))
    if depth < 6:
        try:
            kids = cmd.op.decompose(cmd.reg, **decs.get(node["name"], {}))
            node["kids"] = [tree_of(k, decs, store, depth + 1) for k in kids]
        except NotImplementedError:
            pass
    return node


def rand_matrix_op(rng, rs, n):
    """a spec op with a matrix parameter on a random ordered subset of n modes"""
    kind = rng.choice(["Interferometer", "Interferometer", "GraphEmbed", "BipartiteGraphEmbed", "GaussianTransform", "Gaussian"])
    k = rng.randint(2, min(n, 4))
    if kind == "BipartiteGraphEmbed":
        k = 2 * (k // 2)
    regs = rng.sample(range(n), k)
    if kind == "Interferometer":
        U = unitary(rs, k, rng.choice(UKINDS))
        mesh = rng.choice(MESHES if k >= 3 else MESHES[:6])      # sun_compact is documented for >= 3 modes only
        return dict(cls=kind, regs=regs, pars=[dec02.enc(U)], kw=dict(mesh=mesh, drop_identity=rng.random() < 0.6))
    if kind == "GraphEmbed":
        A = rs.integers(0, 2, (k, k)).astype(float)
        A = np.triu(A, 1)
        A = A + A.T
        if not A.any():
            A[0, 1] = A[1, 0] = 1.0
        return dict(cls=kind, regs=regs, pars=[dec02.enc(A)], kw=dict(mean_photon_per_mode=0.2))
    if kind == "BipartiteGraphEmbed":
        B = np.round(rs.uniform(0.1, 1.0, (k // 2, k // 2)), 2)
        return dict(cls=kind, regs=regs, pars=[dec02.enc(B)], kw=dict(mean_photon_per_mode=0.2, edges=True))
    if kind == "GaussianTransform":
        S = d17.symplectic_case(rs, k, rng.choice(["generic", "passive", "one_unsqueezed", "signs"]))
        return dict(cls=kind, regs=regs, pars=[dec02.enc(S)], kw=dict(vacuum=rng.random() < 0.3))
    V = d17.cov_case(rs, k, rng.choice(["generic", "pure", "thermal_diag", "vacuum"]))
    return dict(cls=kind, regs=regs, pars=[dec02.enc(V)], kw=dict(decomp=rng.random() < 0.6))


def corr_driver(ctx, sf):
    """real `Compiler.decompose` vs the model driver over the generated tables"""
    from strawberryfields.compilers import compiler_db
    from strawberryfields.program_utils import CircuitError
    rng, rs = ctx.rng, ctx.nprng(1)
    pool = SCALAR1 + SCALAR2 + ["Dgate", "Rgate", "Sgate", "BSgate", "Kgate", "DisplacedSqueezed", "Vacuum", "Squeezed"]
    cases, reqs = [], []

    def real_run(comp, circuit):
        try:
            return ("ok", comp.decompose(circuit))
        except CircuitError as e:
            return ("CircuitError", str(e))
        except NotImplementedError as e:
            return ("NotImplementedError", str(e))
        except ValueError:
            raise
        except Exception as e:  # noqa: BLE001
            return (type(e).__name__, str(e))

    for it in range(ctx.n(150, 3000)):
        cname = COMPILERS[it % 3]
        comp = compiler_db[cname]()
        n = 13
        ops_ = []
        for _ in range(rng.randint(1, 6)):
            cls = rng.choice(pool)
            ops_.append(dict(cls=cls, regs=rng.sample(range(n), nmodes(cls)), pars=scalar_pars(rng, cls),
                             dagger=cls not in ("DisplacedSqueezed", "Vacuum", "Squeezed") and rng.random() < 0.4))
        spec = dict(n=n, ops=ops_)
        prog = dec02.build_prog(spec)
        kind, out = real_run(comp, list(prog.circuit))
        cases.append(("scalar", dict(compiler=cname, spec=spec), kind, out, None))
        reqs.append(dict(op="c02.compile_scalar", compiler=cname, consts=dec02.consts(2.0),
                         cmds=[dict(cls=o["cls"], atoms=[dec02.fr(a) for a in dec02.input_atoms(o["cls"], o["pars"])],
                                    regs=o["regs"], dagger=o["dagger"]) for o in ops_]))
        ctx.count(f"driver:scalar:{cname}", spec, True, sample=dict(compiler=cname, spec=spec))
    for it in range(ctx.n(60, 1500)):
        cname = (COMPILERS + ["Xcov", "Xunitary"])[it % 5]      # the X compilers hand non-empty kwargs down
        comp = compiler_db[cname]()
        n = 12
        ops_ = []
        for _ in range(rng.randint(1, 3)):
            if cname.startswith("X"):
                kb = rng.choice([1, 2])
                ops_.append(dict(cls="BipartiteGraphEmbed", regs=rng.sample(range(n), 2 * kb),
                                 pars=[dec02.enc(np.round(rs.uniform(0.1, 1.0, (kb, kb)), 2))],
                                 kw=dict(mean_photon_per_mode=0.2, edges=True)))
            elif rng.random() < 0.7:
                ops_.append(rand_matrix_op(rng, rs, n))
            else:
                cls = rng.choice(pool)
                ops_.append(dict(cls=cls, regs=rng.sample(range(n), nmodes(cls)), pars=scalar_pars(rng, cls),
                                 dagger=cls not in ("DisplacedSqueezed", "Vacuum", "Squeezed") and rng.random() < 0.4))
        spec = dict(n=n, ops=ops_)
        prog = dec02.build_prog(spec)
        store = []
        try:
            trees = [tree_of(c, comp.decompositions, store) for c in prog.circuit]
            prog2 = dec02.build_prog(spec)
            kind, out = real_run(comp, list(prog2.circuit))
        except ValueError:          # a factorisation rejected its input (C17's business)
            ctx.tally("driver:tree:factorisation-rejected-input")
            continue
        cases.append(("tree", dict(compiler=cname, spec=spec), kind, out, store))
        reqs.append(dict(op="c02.compile", compiler=cname, fuel=12, cmds=trees))
        ctx.count(f"driver:tree:{cname}", spec, True)
    for (mode, case, kind, out, store), res in zip(cases, ctx.lean(reqs)):
        ctx.corr_cases += 1
        if "__error__" in res:
            ctx.disagree("compiler-decompose", case, res, kind)
            continue
        if "err" in res:
            mk, mname = res["err"]
            if mk != kind or (mk == "CircuitError" and f"operation {mname} " not in out):
                ctx.disagree("compiler-decompose", case, res["err"], [kind, str(out)[:200]])
            ctx.tally(f"driver-error:{mk}")
            continue
        if kind != "ok":
            ctx.disagree("compiler-decompose", case, "ok", [kind, str(out)[:200]])
            continue
        if mode == "scalar":
            d = dec02.same_cmds(dec02.canon_model(res["ok"]), dec02.canon_real(out))
            if d:
                ctx.disagree("compiler-decompose", case, d, [list(x) for x in dec02.canon_real(out)])
        else:
            model = [store[i] for i in res["ok"]]
            real = [content(c) for c in out]
            if model != real:
                ctx.disagree("compiler-decompose", case, model[:6], real[:6])


def _tab(d):
    """dict keyed by int or (i, j) -> [[i, j, value]]"""
    out = []
    for k, v in d.items():
        i, j = (k if isinstance(k, tuple) else (k, 0))
        out.append([int(i), int(j), dec02.fr(v)])
    return out


def mesh_real_canon(cmds):
    return [(type(c.op).__name__, [r.ind for r in c.reg], [dec02.pval(p) for p in c.op.p]) for c in cmds]


def mesh_same(model, real, mod=False):
    if len(model) != len(real):
        return f"length {len(model)} vs {len(real)}"
    for i, (m, r) in enumerate(zip(model, real)):
        mp = [dec02.unfr(p) for p in m["pars"]]
        if m["cls"] != r[0] or list(m["regs"]) != r[1] or len(mp) != len(r[2]):
            return f"#{i}: {m['cls']}{m['regs']} vs {r[0]}{r[1]}"
        for a, b in zip(mp, r[2]):
            bad = abs(np.exp(1j * a) - np.exp(1j * b)) > 1e-9 if mod else abs(a - b) > 1e-10 * max(1.0, abs(a))
            if bad:
                return f"#{i} {r[0]}{r[1]}: parameter {a} vs {b}"
    return None


def corr_mesh(ctx, sf):
    """mesh command builders and the emission loop of Interferometer._decompose vs the model"""
    from strawberryfields import ops, decompositions as dec
    rng, rs = ctx.rng, ctx.nprng(2)
    tol = float(ops._decomposition_tol)
    cases, reqs = [], []
    for it in range(ctx.n(250, 5000)):
        m = rng.randint(1, 6)
        big = m + rng.choice([0, 1, 2, 8])
        prog = sf.Program(big)
        regidx = rng.sample(range(big), m)
        reg = [prog.register[i] for i in regidx]
        kind = rng.choice(UKINDS)
        U = unitary(rs, m, kind)
        which = ["rect_compact", "tri_compact", "sun_compact", "interferometer", "interferometer"][it % 5]
        case = dict(which=which, m=m, reg=regidx, ukind=kind, U=dec02.enc(U))
        try:
            if which == "rect_compact":
                ph = dec.rectangular_compact(U)
                if rng.random() < 0.3:      # synthetic phases: every slot different
                    for key in ("phi_ins", "deltas", "sigmas", "phi_outs", "phi_edges"):
                        for k2 in list(ph[key]):
                            ph[key][k2] = round(rng.uniform(-3, 3), 4)
                real = mesh_real_canon(ops._rectangular_compact_cmds(reg, ph))
                req = dict(op="c02.mesh", kind=which, reg=regidx, m=ph["m"], phi_ins=_tab(ph["phi_ins"]),
                           phi_edges=_tab(ph["phi_edges"]), deltas=_tab(ph["deltas"]), sigmas=_tab(ph["sigmas"]),
                           phi_outs=[[int(k), dec02.fr(v)] for k, v in ph["phi_outs"].items()])
            elif which == "tri_compact":
                ph = dec.triangular_compact(U)
                if rng.random() < 0.3:
                    for key in ("phi_ins", "deltas", "sigmas", "zetas"):
                        for k2 in list(ph[key]):
                            ph[key][k2] = round(rng.uniform(-3, 3), 4)
                real = mesh_real_canon(ops._triangular_compact_cmds(reg, ph))
                req = dict(op="c02.mesh", kind=which, reg=regidx, m=ph["m"], phi_ins=_tab(ph["phi_ins"]),
                           deltas=_tab(ph["deltas"]), sigmas=_tab(ph["sigmas"]), zetas=_tab(ph["zetas"]))
            elif which == "sun_compact":
                params, gp = dec.sun_compact(U)
                if rng.random() < 0.25:
                    gp = None
                if rng.random() < 0.1 and m >= 3:
                    params = list(params) + [((0, 2), [0.1, 0.2, 0.3])]       # invalid pair: ValueError
                try:
                    real = mesh_real_canon(ops._sun_compact_cmds(reg, params, gp))
                except ValueError:
                    real = "ValueError"
                req = dict(op="c02.mesh", kind=which, reg=regidx,
                           params=[[int(md[0]), int(md[1])] + [dec02.fr(x) for x in ps] for md, ps in params])
                if gp is not None:
                    req["global_phase"] = dec02.fr(gp)
            else:
                mesh = rng.choice(MESHES[:4])
                drop = rng.random() < 0.5
                case.update(mesh=mesh, drop_identity=drop)
                BS1, R, BS2 = getattr(dec, mesh)(U, tol=1e-6)
                op = ops.Interferometer(U, mesh=mesh, drop_identity=drop)
                real = mesh_real_canon(op._decompose(reg))
                ident = bool(np.allclose(U, np.identity(m), atol=1e-13, rtol=0))
                req = dict(op="c02.mesh", kind="interferometer", reg=regidx, tol=dec02.fr(tol), identity=ident,
                           drop_identity=drop, symmetric="symmetric" in mesh, triangular=(mesh == "triangular"),
                           BS1=[[int(a), int(b), dec02.fr(t), dec02.fr(p)] for a, b, t, p, _ in BS1],
                           R=[(dec02.fr(math.atan2(float(np.imag(e)), float(np.real(e)))) if abs(e - 1) >= tol else None) for e in R])
                if BS2 is not None:
                    req["BS2"] = [[int(a), int(b), dec02.fr(t), dec02.fr(p)] for a, b, t, p, _ in BS2]
        except ValueError as e:
            ctx.tally("mesh:decomposition-rejected-input")
            continue
        cases.append((case, real))
        reqs.append(req)
        ctx.count(f"mesh:{which}:{case.get('mesh', '')}:m={m}", case, kind not in ("identity", "identity_c"), sample=None)
    for (case, real), res in zip(cases, ctx.lean(reqs)):
        ctx.corr_cases += 1
        if isinstance(res, dict) and "__error__" in res:
            ctx.disagree("mesh-cmds", case, res, None)
        elif isinstance(res, dict) and "err" in res:
            if real != "ValueError":
                ctx.disagree("mesh-cmds", case, res, real)
        elif real == "ValueError":
            ctx.disagree("mesh-cmds", case, "commands", real)
        else:
            d = mesh_same(res, real, mod=case["which"] == "interferometer")
            if d:
                ctx.disagree("mesh-cmds", case, d, real[:8])


# ================================================================== (C) oracle

def prefix_ops(rng, n, fock=False):
    if not fock:
        return sim.correlated_prefix(rng, n)
    ops_ = []
    for m in range(n):
        ops_.append(dict(cls="Sgate", regs=[m], pars=[round(rng.uniform(0.1, 0.22), 3) * rng.choice([1, -1]), ang(rng)]))
        ops_.append(dict(cls="Dgate", regs=[m], pars=[round(rng.uniform(0.1, 0.3), 3), ang(rng)]))
    for m in range(n - 1):
        ops_.append(dict(cls="BSgate", regs=[m, m + 1], pars=[round(rng.uniform(0.3, 1.2), 3), ang(rng)]))
    return ops_


def compare_to_reference(ctx, sf, spec, backend, hbar, rp, sig, what):
    """run spec on a back end and compare all first and second moments with the independent reference"""
    ref = dec02.reference(spec, hbar)
    want = dec02.drop_modes(ref.alpha_N_M(), dec02.deleted_modes(spec))
    scale = max(1.0, float(np.max(np.abs(want[1]))), float(np.max(np.abs(want[2]))))

    def measure(cut):
        st = dec02.run_spec(sf, spec, backend, hbar=hbar, cutoff=cut, op_cache=({} if rp.get("shared") else None))
        mom = dec02.state_moments(sf, st, backend, hbar)
        return sim.moment_dist(mom, want), max(1 - mom[3], 0.0)
    try:
        cut = 8
        d, loss = measure(cut)
    finally:
        sf.hbar = 2.0
    ctx.oracle_cases += 1
    if backend != "fock":
        if d > 1e-8 * scale:
            ctx.fail(sig, f"{what}: {backend} state differs from the independent phase-space calculation by {d:.3g}", rp)
            return False
        return True
    if d > 5 * cut * loss + 1e-6:
        try:
            d2, loss2 = measure(cut + 6)
        finally:
            sf.hbar = 2.0
        if d2 > max(1e-5, d / 2) and d2 > 5 * (cut + 6) * loss2 + 1e-6:
            ctx.fail(sig, f"{what}: fock state differs from the independent phase-space calculation by {d2:.3g} "
                          f"(cutoff {cut + 6}, truncation loss {loss2:.2g})", rp)
            return False
    return True


def scalar_case(ctx, sf, cls, pars, regs, dagger, n, backend, hbar, prefix):
    op = dict(cls=cls, regs=regs, pars=pars)
    if dagger:
        op["dagger"] = True
    spec = dict(n=n, ops=prefix + [op])
    rp = dict(kind="scalar", spec=spec, backend=backend, hbar=hbar)
    sig = f"scalar:{cls}{'.H' if dagger else ''}:{backend}"
    try:
        return compare_to_reference(ctx, sf, spec, backend, hbar, rp, sig,
                                    f"{cls}({', '.join('%.4g' % p for p in pars)}){'.H' if dagger else ''} on {regs}")
    except Exception as e:  # noqa: BLE001
        if type(e).__name__ == "CircuitError" and backend == "bosonic" and cls == "sMZgate":
            ctx.tally("skipped:bosonic-has-no-sMZgate")
            return True
        ctx.fail(f"raises:{cls}:{backend}:{type(e).__name__}", f"{cls} on {backend} raised {type(e).__name__}: {e}", rp)
        return False


def oracle_scalar(ctx, sf):
    rng = ctx.rng
    # systematic sweep on the phase-space back ends: every class x special parameters x every ordered target pair, n = 3
    for cls in SCALAR1 + SCALAR2:
        k = nmodes(cls)
        targets = list(itertools.permutations(range(3), k))
        specials = {"Xgate": [[0.0], [-0.7]], "Zgate": [[0.0], [0.9]], "Pgate": [[0.0], [-1.3], [0.8]],
                    "CXgate": [[0.0], [1.1], [-0.6]], "CZgate": [[0.0], [-1.2], [0.5]],
                    "S2gate": [[0.0, 0.3], [0.4, 0.0], [-0.5, PI / 2], [0.3, PI], [0.35, 2 * PI], [0.3, -2.1]],
                    "MZgate": [[0.0, 0.0], [PI, PI], [PI / 2, 0.7], [0.0, -PI / 2], [2 * PI, 1.0], [-1.1, PI], [0.6, 2.2]],
                    "sMZgate": [[0.0, 0.0], [PI, PI / 2], [PI / 2, -PI / 2], [2 * PI, 0.4], [-0.9, 1.7]],
                    "Fouriergate": [[]]}[cls]
        for pars in specials:
            for regs in targets:
                for dagger in (False, True):
                    backend = ("gaussian", "bosonic")[(len(ctx.distinct) + dagger) % 2]
                    if cls == "sMZgate":
                        backend = "gaussian"
                    hbar = rng.choice([2.0, 2.0, 1.0, 0.7])
                    prefix = prefix_ops(rng, 3)
                    case = dict(c=cls, p=pars, r=list(regs), d=dagger, b=backend)
                    ctx.count(f"scalar:{cls}:{backend}", case, any(pars) or cls == "Fouriergate",
                              sample=dict(cls=cls, pars=pars, regs=list(regs), dagger=dagger, backend=backend))
                    scalar_case(ctx, sf, cls, pars, list(regs), dagger, 3, backend, hbar, prefix)
    # random parameters, 3-4 modes
    for it in range(ctx.n(120, 3000)):
        cls = rng.choice(SCALAR1 + SCALAR2)
        n = rng.choice([3, 3, 4])
        regs = rng.sample(range(n), nmodes(cls))
        pars = scalar_pars(rng, cls, small=False)
        dagger = rng.random() < 0.5
        backend = "gaussian" if cls == "sMZgate" else rng.choice(["gaussian", "bosonic"])
        case = dict(c=cls, p=pars, r=regs, d=dagger, b=backend)
        ctx.count(f"scalar:{cls}:{backend}", case, any(pars) or cls == "Fouriergate")
        scalar_case(ctx, sf, cls, pars, regs, dagger, n, backend, rng.choice([2.0, 1.0, 0.7]), prefix_ops(rng, n))
    # Fock back end (decomposes X, Z, P, CX, CZ, sMZ, Fourier; S2 and MZ natively): every class, ordered targets
    # drawn so that descending pairs and mode 0 as second target occur
    pairs3 = list(itertools.permutations(range(3), 2))
    for it in range(ctx.n(72, 1500)):
        cls = (SCALAR1 + SCALAR2)[it % 9]
        n = 3 if it % 4 else 2
        k = nmodes(cls)
        regs = list(pairs3[(it // 9) % 6]) if (k == 2 and n == 3) else rng.sample(range(n), k)
        pars = scalar_pars(rng, cls, small=True)
        dagger = bool((it // 9) % 2)
        case = dict(c=cls, p=pars, r=regs, d=dagger, b="fock")
        ctx.count(f"scalar:{cls}:fock", case, any(pars) or cls == "Fouriergate")
        scalar_case(ctx, sf, cls, pars, regs, dagger, n, "fock", 2.0, prefix_ops(rng, n, fock=True))


def oracle_native_vs_decomposed(ctx, sf):
    """back ends that apply an operation natively must give the state of its decomposition"""
    rng = ctx.rng
    plan = [("fock", "S2gate"), ("fock", "MZgate"), ("fock", "DisplacedSqueezed"), ("gaussian", "DisplacedSqueezed"),
            ("bosonic", "DisplacedSqueezed")]
    for it in range(ctx.n(40, 1000)):
        backend, cls = plan[it % len(plan)]
        n = 3 if backend != "fock" or it % 2 else 2
        regs = rng.sample(range(n), nmodes(cls))
        pars = scalar_pars(rng, cls, small=True)
        dagger = cls != "DisplacedSqueezed" and rng.random() < 0.5
        op = dict(cls=cls, regs=regs, pars=pars)
        if dagger:
            op["dagger"] = True
        prefix = prefix_ops(rng, n, fock=(backend == "fock"))
        spec = dict(n=n, ops=prefix + [op])
        rp = dict(kind="native", spec=spec, backend=backend)
        ctx.count(f"native-vs-decomposed:{cls}:{backend}", dict(s=spec, b=backend), any(pars))
        native_case(ctx, sf, spec, backend, rp)


def native_case(ctx, sf, spec, backend, rp):
    cls = spec["ops"][-1]["cls"]
    opts = dict(cutoff_dim=10, pure=True) if backend == "fock" else {}
    try:
        sf.hbar = 2.0
        st1 = sf.Engine(backend, backend_options=opts).run(dec02.build_prog(spec)).state
        prog2, kids = dec02.expand_spec_real(sf, spec, len(spec["ops"]) - 1)
        st2 = sf.Engine(backend, backend_options=opts).run(prog2).state
    except Exception as e:  # noqa: BLE001
        ctx.fail(f"raises:native:{cls}:{backend}:{type(e).__name__}", f"{cls} native/decomposed on {backend} raised {e}", rp)
        return
    ctx.oracle_cases += 1
    m1, m2 = dec02.state_moments(sf, st1, backend, 2.0), dec02.state_moments(sf, st2, backend, 2.0)
    d = sim.moment_dist(m1, m2)
    loss = max(1 - m1[3], 1 - m2[3], 0.0)
    tol = (50 * loss + 1e-6) if backend == "fock" else 1e-8
    if d > tol:
        dg = ".H" if spec["ops"][-1].get("dagger") else ""
        ctx.fail(f"native-vs-decomposed:{cls}{dg}:{backend}",
                 f"{cls}{dg}{spec['ops'][-1]['pars']} on {spec['ops'][-1]['regs']}: native and decomposed application differ "
                 f"by {d:.3g} on {backend}", rp)


def interferometer_case(ctx, sf, U, mesh, drop, regidx, big, rp, run_backend=False, rng=None):
    from strawberryfields import ops
    from strawberryfields.compilers import compiler_db
    m = len(regidx)
    prog = sf.Program(big)
    reg = [prog.register[i] for i in regidx]
    pos = {r: i for i, r in enumerate(regidx)}
    try:
        op = ops.Interferometer(U, mesh=mesh, drop_identity=drop)
        direct = op.decompose(reg)
        from strawberryfields.program_utils import Command
        full = compiler_db["gaussian"]().decompose([Command(op, reg)])
    except Exception as e:  # noqa: BLE001
        ctx.fail(f"raises:interferometer:{mesh}:{type(e).__name__}", f"Interferometer mesh={mesh} raised {type(e).__name__}: {e}", rp)
        return
    ctx.oracle_cases += 1
    for label, cmds in (("emitted", direct), ("compiled", full)):
        bad = [type(c.op).__name__ for c in cmds if type(c.op).__name__ not in ("Rgate", "BSgate", "MZgate", "sMZgate")]
        if bad or any(r.ind not in pos for c in cmds for r in c.reg):
            ctx.fail(f"interferometer:{mesh}:foreign-command", f"mesh {mesh} emitted {bad} / modes outside its targets", rp)
            return
        W = dec02.circuit_unitary(cmds, m, pos)
        err = float(np.max(np.abs(W - U)))
        if err > 1e-8:
            if mesh == "sun_compact" and rp.get("ukind") == "near_identity" and err < 1e-5:
                # the factorisation takes its structural shortcuts at the unitarity tolerance it is handed (1e-6)
                ctx.fail("interferometer:sun_compact:near-identity:shortcuts-at-unitarity-tolerance",
                         f"sun_compact on exp(i eps H): emitted circuit differs from U by {err:.3g}", rp)
                return
            ctx.fail(f"interferometer:{mesh}:drop={drop}:{label}-circuit-is-not-U",
                     f"mesh={mesh} drop_identity={drop} size {m} targets {regidx}: the {label} circuit implements a unitary "
                     f"differing from U by {err:.3g}", rp)
            return
    if run_backend:
        prefix = prefix_ops(rng, big)
        spec = dict(n=big, ops=prefix + [dict(cls="Interferometer", regs=regidx, pars=[dec02.enc(U)],
                                             kw=dict(mesh=mesh, drop_identity=drop))])
        rp2 = dict(kind="matrix", spec=spec, backend="gaussian", hbar=2.0, sig=f"interferometer:{mesh}:drop={drop}:state")
        compare_to_reference(ctx, sf, spec, "gaussian", 2.0, rp2, rp2["sig"], f"Interferometer mesh={mesh} on {regidx}")


def oracle_interferometer(ctx, sf):
    rng, rs = ctx.rng, ctx.nprng(3)
    it = 0
    for mesh in MESHES:
        for drop in (True, False):
            for m in range(3 if mesh == "sun_compact" else 1, 7):
                kinds = UKINDS if ctx.tier != "quick" else [UKINDS[(it + j) % len(UKINDS)] for j in range(0, 12, 3)] + ["near_identity", "diag_pm_float", "minus_identity_float"]
                for kind in kinds:
                    it += 1
                    U = unitary(rs, m, kind)
                    big = m + (it % 2)
                    regidx = rng.sample(range(big), m)
                    rp = dict(kind="interferometer", U=dec02.enc(U), mesh=mesh, drop=drop, reg=regidx, big=big, ukind=kind)
                    ctx.count(f"interferometer:{mesh}:drop={drop}", dict(m=mesh, d=drop, k=kind, n=m, it=it),
                              kind not in ("identity", "identity_c"),
                              sample=dict(mesh=mesh, drop_identity=drop, size=m, ukind=kind, targets=regidx))
                    interferometer_case(ctx, sf, U, mesh, drop, regidx, big, rp, run_backend=(it % 6 == 0 and m <= 4), rng=rng)


def sq_block(r, phi):
    c, s, ch, sh = math.cos(phi), math.sin(phi), math.cosh(2 * r), math.sinh(2 * r)
    return np.array([[ch - c * sh, -s * sh], [-s * sh, ch + c * sh]])


def xpxp_to_xxpp(M):
    n = M.shape[0] // 2
    perm = list(range(0, 2 * n, 2)) + list(range(1, 2 * n, 2))
    return M[np.ix_(perm, perm)]


def gaussian_cov_case(rng, rs, k, kind):
    """covariance (hbar = 2 units, xxpp) hitting a named branch of Gaussian._decompose"""
    from scipy.linalg import block_diag
    if kind == "diag-squeezed":          # pure, diagonal: x- and p-squeezed modes, some vacuum
        r = np.array([rng.choice([0.0, 0.3, -0.4, 0.25, -0.2]) for _ in range(k)])
        if not r.any():
            r[0] = -0.35
        return np.diag(np.concatenate([np.exp(-2 * r), np.exp(2 * r)]))
    if kind == "rotated":                # pure, block diagonal: every quadrant of the squeezing angle, incl. v00 == v11
        blocks = []
        for j in range(k):
            phi = rng.choice([0.4, 2.0, -1.0, -2.6, PI / 2, -PI / 2, 3.0, 1.2])
            blocks.append(sq_block(rng.choice([0.3, 0.2, 0.45]), phi) if (j or rng.random() < 0.85) else np.identity(2))
        return xpxp_to_xxpp(block_diag(*blocks))
    if kind == "thermal":
        nb = np.array([rng.choice([0.0, 0.4, 1.0]) for _ in range(k)])
        return np.diag(np.concatenate([2 * nb + 1, 2 * nb + 1]))
    if kind == "squeezed-thermal-diag":
        nb = np.array([rng.choice([0.2, 0.5]) for _ in range(k)])
        r = np.array([rng.choice([0.3, -0.3]) for _ in range(k)])
        return np.diag(np.concatenate([(2 * nb + 1) * np.exp(-2 * r), (2 * nb + 1) * np.exp(2 * r)]))
    return d17.cov_case(rs, k, {"pure": "pure", "mixed": "generic", "mixed-pure": "mixed_pure"}[kind])


GAUSS_KINDS = ["diag-squeezed", "rotated", "thermal", "squeezed-thermal-diag", "pure", "mixed", "mixed-pure"]


def gaussian_case(ctx, sf, V2, r, regidx, n, hbar, backend, rp):
    """Gaussian(V, r) | targets behind a correlated prefix: targets end in exactly (V, r), uncorrelated with the
    spectators, whose reduced state is unchanged"""
    k = len(regidx)
    spec = rp["spec"]
    try:
        st = dec02.run_spec(sf, spec, backend, hbar=hbar, cutoff=8)
        if backend == "fock":
            a, N, M, tr = sim.moments_fock(st)
        else:
            a, N, M = sim.moments_gaussian(st, hbar)
            tr = 1.0
    except Exception as e:  # noqa: BLE001
        sf.hbar = 2.0
        ctx.fail(f"raises:Gaussian:{backend}:{type(e).__name__}", f"Gaussian preparation raised {type(e).__name__}: {e}", rp)
        return
    finally:
        sf.hbar = 2.0
    ctx.oracle_cases += 1
    ref = dec02.reference(dict(n=n, ops=spec["ops"][:-1]), hbar)
    ix = ref.idx(regidx)
    ref.V[ix, :] = 0
    ref.V[:, ix] = 0
    ref.V[np.ix_(ix, ix)] = V2
    ref.mu[ix] = np.asarray(r) / math.sqrt(hbar / 2)
    want = ref.alpha_N_M()
    d = sim.moment_dist((a, N, M), want)
    tol = 1e-8 * max(1.0, float(np.max(np.abs(V2)))) if backend != "fock" else 5 * 8 * max(1 - tr, 0) + 1e-6
    if d > tol:
        if backend == "fock":
            st = dec02.run_spec(sf, spec, backend, hbar=hbar, cutoff=14)
            sf.hbar = 2.0
            a, N, M, tr = sim.moments_fock(st)
            d2 = sim.moment_dist((a, N, M), want)
            if not (d2 > max(1e-5, d / 2) and d2 > 5 * 14 * max(1 - tr, 0) + 1e-6):
                return
            d = d2
        ctx.fail(rp["sig"], f"Gaussian(V, r) [{rp['branch']}] on {regidx} (hbar={hbar}, {backend}, decomp={rp['decomp']}): prepared "
                            f"state differs from the requested (V, r) by {d:.3g}", rp)


def oracle_gaussian_prep(ctx, sf):
    rng, rs = ctx.rng, ctx.nprng(4)
    for it in range(ctx.n(140, 3000)):
        branch = GAUSS_KINDS[it % len(GAUSS_KINDS)]
        k = rng.choice([1, 2, 2, 3])
        n = k + rng.choice([0, 1])
        regidx = rng.sample(range(n), k)
        hbar = rng.choice([2.0, 2.0, 1.0])
        V2 = gaussian_cov_case(rng, rs, k, branch)
        r = [0.0] * (2 * k) if rng.random() < 0.4 else [rng.choice([0.0, 0.3, -0.5, 0.2]) for _ in range(2 * k)]
        backend = "fock" if (it % 10 == 9 and k <= 2 and branch in ("diag-squeezed", "rotated", "thermal")) else "gaussian"
        decomp = True if backend == "fock" else (it % 5 != 4)
        prefix = prefix_ops(rng, n, fock=(backend == "fock"))
        op = dict(cls="Gaussian", regs=regidx, pars=[dec02.enc(V2 * hbar / 2), dec02.enc(np.array(r))], kw=dict(decomp=decomp))
        spec = dict(n=n, ops=prefix + [op])
        rp = dict(kind="gaussian-prep", spec=spec, V2=dec02.enc(V2), r=r, reg=regidx, n=n, hbar=hbar, backend=backend,
                  branch=branch, decomp=decomp, sig=f"gaussian-prep:{branch}:{'decomposed' if decomp else 'native'}:{backend}")
        ctx.count(f"gaussian-prep:{branch}:{backend}", dict(V=np.round(V2, 6).tolist(), r=r, t=regidx, h=hbar, d=decomp), True,
                  sample=dict(branch=branch, targets=regidx, hbar=hbar, decomp=decomp, diagV=np.round(np.diag(V2), 4).tolist()))
        gaussian_case(ctx, sf, V2, r, regidx, n, hbar, backend, rp)


def matrix_case(ctx, sf, rp):
    """GaussianTransform / GraphEmbed / BipartiteGraphEmbed through the back end vs what they document"""
    spec, kind = rp["spec"], rp["mkind"]
    backend = rp.get("backend", "gaussian")
    try:
        if kind == "GaussianTransform":
            return compare_to_reference(ctx, sf, spec, backend, 2.0, rp, rp["sig"], rp["sig"])
        if rp.get("mesh"):          # decompose with an explicit mesh and run the emitted commands
            sf.hbar = 2.0
            prog0 = dec02.build_prog(spec)
            cmd = prog0.circuit[-1]
            kids = cmd.op.decompose(cmd.reg, mesh=rp["mesh"])
            prog = sf.Program(spec["n"])
            with prog.context as q:
                for kcmd in kids:
                    regs_ = [q[r.ind] for r in kcmd.reg]
                    kcmd.op | (regs_ if len(regs_) > 1 else regs_[0])
            st = sf.Engine(backend).run(prog).state
        else:
            st = dec02.run_spec(sf, spec, backend)
        a, N, M = sim.moments_gaussian(st, 2.0)
    except Exception as e:  # noqa: BLE001
        ctx.fail(f"raises:{kind}:{type(e).__name__}", f"{kind} raised {type(e).__name__}: {e}", rp)
        return
    ctx.oracle_cases += 1
    n = spec["n"]
    A = np.asarray(dec02.dec(rp["A"]), dtype=complex)
    regs = spec["ops"][-1]["regs"]
    Afull = np.zeros((n, n), dtype=complex)
    Afull[np.ix_(regs, regs)] = A
    # own formula, independent of decompositions.py / thewalrus: for the pure zero-mean Gaussian state with A-matrix B,
    # <a_i a_j> = [B (1 - B^* B)^-1]_ij and 1 + N^T = (1 - B B^*)^-1, hence B = (1 + N^T)^-1 M
    Bst = np.linalg.solve(np.identity(n) + N.T, M)
    nz = np.abs(Afull) > 1e-9
    c = complex(np.vdot(Afull[nz], Bst[nz]) / np.vdot(Afull[nz], Afull[nz])) if nz.any() else 0.0
    D = np.abs(Bst - c.real * Afull)
    err = float(np.max(D))
    nph = float(np.real(np.trace(N)))
    opts = {k_: v for k_, v in spec["ops"][-1].get("kw", {}).items()}
    if err > 1e-7 or c.real <= 0 or abs(c.imag) > 1e-7 or np.max(np.abs(a)) > 1e-9:
        i, j = np.unravel_index(int(np.argmax(D)), D.shape)
        ctx.fail(rp["sig"], f"{kind}{opts} on {regs}{' mesh=' + rp['mesh'] if rp.get('mesh') else ''}: the A-matrix of the prepared state "
                            f"is not a positive multiple of the requested matrix (c = {c:.4g}; worst entry ({i},{j}): state "
                            f"{Bst[i, j]:.4g} vs c*A = {c.real * Afull[i, j]:.4g})", rp)
    elif abs(nph - rp["mean"] * len(regs)) > 1e-6 * max(1, nph):
        ctx.fail(rp["sig"] + ":mean-photon-number",
                 f"{kind}{opts} on {regs}: the prepared state has (1/N) sum <n_i> = {nph / len(regs):.6g}, requested "
                 f"mean_photon_per_mode = {rp['mean']:.6g}", rp)


# ---- structured symmetric matrices for the graph embeddings

GRAPH_CLASSES = ["adjacency", "weighted", "self_loops", "diag_real_unsorted", "diag_complex", "diag_repeated", "diag_mixed",
                 "block_diag", "block_diag_complex", "perm_like", "complex_generic", "rank_deficient", "rank_deficient_complex"]


def graph_matrix(rng, rs, k, cls):
    """symmetric k x k matrix of a named structured class"""
    def sym(M):
        return (M + M.T) / 2
    if cls == "adjacency":
        A = np.triu(rs.integers(0, 2, (k, k)).astype(float), 1)
        A = A + A.T
        if not A.any():
            A[0, -1] = A[-1, 0] = 1.0
        return A
    if cls == "weighted":
        return sym(np.round(rs.uniform(-1, 1, (k, k)), 2)) * (1 - np.identity(k))  + 0.0 if k > 1 else np.array([[0.7]])
    if cls == "self_loops":
        A = graph_matrix(rng, rs, k, "adjacency")
        return A + np.diag(np.round(rs.uniform(0.2, 1.5, k), 2) * rs.choice([1.0, -1.0, 0.0], k))
    mod = np.round(rs.uniform(0.2, 1.0, k), 2)          # unsorted moduli
    if cls == "diag_real_unsorted":
        return np.diag(mod * rs.choice([1.0, -1.0], k))
    if cls == "diag_complex":
        return np.diag(mod * np.exp(1j * rs.choice([0.0, np.pi / 2, np.pi, -np.pi / 2, 0.7, 2.1], k)))
    if cls == "diag_repeated":
        mod[:] = mod[0]
        if k > 2:
            mod[-1] = 0.3
        return np.diag(mod * np.exp(1j * rs.choice([0.0, np.pi / 2, np.pi, 1.1], k)))
    if cls == "diag_mixed":                                # the seeded example family: diag(0.3, 0.8i, -0.5)
        ph = np.array([1, 1j, -1, -1j, np.exp(0.4j)])[rs.permutation(5)[:k] % 5] if k <= 5 else np.ones(k)
        return np.diag(np.sort(mod) * ph)                  # increasing moduli: never the sorted-by-decreasing order
    if cls in ("block_diag", "block_diag_complex"):
        A = np.zeros((k, k), dtype=complex if cls.endswith("complex") else float)
        j = 0
        while j < k:
            b = min(int(rs.integers(1, 3)), k - j)
            blk = rs.standard_normal((b, b))
            if cls.endswith("complex"):
                blk = blk + 1j * rs.standard_normal((b, b))
            A[j:j + b, j:j + b] = np.round(sym(blk), 2)
            j += b
        return A
    if cls == "perm_like":                                 # weighted involution: a perfect matching plus fixed points
        A = np.zeros((k, k))
        idx = list(rs.permutation(k))
        while len(idx) >= 2:
            a, b = idx.pop(), idx.pop()
            A[a, b] = A[b, a] = round(float(rs.uniform(0.3, 1.0)), 2)
        if idx and rng.random() < 0.5:
            A[idx[0], idx[0]] = 0.6
        return A
    if cls == "complex_generic":
        return np.round(sym(rs.standard_normal((k, k)) + 1j * rs.standard_normal((k, k))), 2)
    if cls in ("rank_deficient", "rank_deficient_complex"):
        v = rs.standard_normal(k) + (1j * rs.standard_normal(k) if cls.endswith("complex") else 0)
        A = np.outer(v, v)
        if k > 2 and rng.random() < 0.5:
            w = rs.standard_normal(k)
            A = A + np.outer(w, w) * 0.5
        return A
    raise KeyError(cls)


def oracle_graph_embed(ctx, sf):
    """GraphEmbed / BipartiteGraphEmbed on structured matrices x every option combination: the prepared state's A-matrix
    is a positive multiple of the requested (traceless, if asked) matrix entry by entry and has the requested photon number"""
    rng, rs = ctx.rng, ctx.nprng(11)
    it = 0
    for cls in GRAPH_CLASSES:
        for traceless in (False, True):
            for rep in range(ctx.n(3, 12)):
                it += 1
                k = rng.choice([2, 3, 3, 4])
                n = k + rng.choice([0, 1, 8])
                regs = rng.sample(range(n), k)
                A = graph_matrix(rng, rs, k, cls)
                mean = [0.2, 0.5, 1.0][it % 3]
                target = A - np.trace(A) * np.identity(k) / k if traceless else A
                if np.max(np.abs(target)) < 1e-6:
                    continue
                if np.allclose(A, np.identity(k)):
                    continue            # known finding (identity shortcut)
                op = dict(cls="GraphEmbed", regs=regs, pars=[dec02.enc(A)], kw=dict(mean_photon_per_mode=mean, make_traceless=traceless))
                mesh = [None, None, "rectangular_symmetric", "triangular", "rectangular_compact", "sun_compact"][it % 6]
                if mesh == "sun_compact" and k < 3:
                    mesh = "rectangular_phase_end"
                rp = dict(kind="matrix", mkind="GraphEmbed", spec=dict(n=n, ops=[op]), A=dec02.enc(target), mean=mean, mesh=mesh,
                          sig=f"graph-embed:GraphEmbed:{cls}:traceless={traceless}")
                ctx.count(f"graph-embed:GraphEmbed:{cls}:traceless={traceless}", dict(A=str(np.round(A, 4).tolist()), r=regs, m=mean, t=traceless, me=mesh),
                          True, sample=dict(cls=cls, A=str(np.round(A, 3).tolist()), make_traceless=traceless, mean=mean, targets=regs, mesh=mesh))
                matrix_case(ctx, sf, rp)
    bcls = ["generic", "complex", "symmetric", "symmetric_complex", "diag_real_unsorted", "diag_complex", "diag_mixed", "identity",
            "rank_deficient", "perm_like"]
    for cls in bcls:
        for edges in (True, False):
            for rep in range(ctx.n(2, 8)):
                it += 1
                N_ = rng.choice([1, 2, 2, 3])
                if cls == "generic":
                    B = np.round(rs.uniform(-1, 1, (N_, N_)), 2)
                elif cls == "complex":
                    B = np.round(rs.standard_normal((N_, N_)) + 1j * rs.standard_normal((N_, N_)), 2)
                elif cls == "symmetric":
                    B = graph_matrix(rng, rs, N_, "self_loops")
                elif cls == "symmetric_complex":
                    B = graph_matrix(rng, rs, N_, "complex_generic")
                elif cls == "identity":
                    B = np.identity(N_)
                else:
                    B = graph_matrix(rng, rs, N_, cls)
                if np.max(np.abs(B)) < 1e-6:
                    continue
                A = np.block([[np.zeros_like(B), B], [B.T, np.zeros_like(B)]])
                n = 2 * N_ + rng.choice([0, 1, 7])
                regs = rng.sample(range(n), 2 * N_)
                mean = [0.2, 0.5, 1.0][it % 3]
                kw = dict(mean_photon_per_mode=mean, edges=edges, drop_identity=bool(it % 2))
                op = dict(cls="BipartiteGraphEmbed", regs=regs, pars=[dec02.enc(B if edges else A)], kw=kw)
                mesh = [None, "rectangular_symmetric", None, "triangular_compact"][it % 4]
                rp = dict(kind="matrix", mkind="BipartiteGraphEmbed", spec=dict(n=n, ops=[op]), A=dec02.enc(A), mean=mean, mesh=mesh,
                          sig=f"graph-embed:BipartiteGraphEmbed:{cls}:edges={edges}")
                ctx.count(f"graph-embed:BipartiteGraphEmbed:{cls}:edges={edges}", dict(B=str(np.round(B, 4).tolist()), r=regs, m=mean, k=str(kw), me=mesh),
                          True, sample=dict(cls=cls, B=str(np.round(B, 3).tolist()), kw=kw, targets=regs, mesh=mesh))
                matrix_case(ctx, sf, rp)


def oracle_matrix_ops(ctx, sf):
    rng, rs = ctx.rng, ctx.nprng(5)
    for it in range(ctx.n(90, 2000)):
        kind = ["GaussianTransform", "GaussianTransform", "GraphEmbed", "BipartiteGraphEmbed", "GaussianTransform"][it % 5]
        k = rng.choice([2, 2, 3, 4])
        if kind == "BipartiteGraphEmbed":
            k = rng.choice([2, 4])
        n = k + rng.choice([0, 1])
        regs = rng.sample(range(n), k)
        if kind == "GaussianTransform":
            skind = rng.choice(["generic", "passive", "identity", "degenerate", "partial", "one_unsqueezed", "signs", "diag",
                                "left_only", "perm_passive"])
            S = d17.symplectic_case(rs, k, skind)
            vac = it % 5 == 4
            prefix = [] if vac else prefix_ops(rng, n)
            op = dict(cls=kind, regs=regs, pars=[dec02.enc(S)], kw=dict(vacuum=vac))
            spec = dict(n=n, ops=prefix + [op])
            sv = np.linalg.svd(S, compute_uv=False)
            unsq = int(np.sum(np.abs(sv - 1) < 1e-9)) // 2
            sig = f"gaussian-transform:{skind}:vacuum={vac}"
            rp = dict(kind="matrix", mkind=kind, spec=spec, sig=sig, backend="gaussian")
            ctx.count(f"gaussian-transform:{skind}", dict(S=np.round(S, 6).tolist(), r=regs, v=vac), skind != "identity",
                      sample=dict(skind=skind, targets=regs, vacuum=vac))
        else:
            mean = rng.choice([0.2, 0.5, 1.0])
            if kind == "GraphEmbed":
                A = np.triu(rs.integers(0, 2, (k, k)).astype(float), 1)
                A = A + A.T
                if not A.any():
                    A[0, -1] = A[-1, 0] = 1.0
                if it % 3 == 0:
                    A = A * np.round(rs.uniform(0.2, 1.0, (k, k)), 2)
                    A = (A + A.T) / 2
                if it % 15 == 2:
                    A = np.identity(k)          # self-loops only: k equally squeezed modes
                Ain, kw = A, dict(mean_photon_per_mode=mean)
            else:
                B = np.round(rs.uniform(0.1, 1.0, (k // 2, k // 2)), 2)
                if it % 2:
                    B = np.identity(k // 2)
                A = np.block([[np.zeros_like(B), B], [B.T, np.zeros_like(B)]])
                edges = rng.random() < 0.5
                Ain, kw = (B if edges else A), dict(mean_photon_per_mode=mean, edges=edges, drop_identity=rng.random() < 0.6)
            op = dict(cls=kind, regs=regs, pars=[dec02.enc(Ain)], kw=kw)
            spec = dict(n=n, ops=[op])
            sig = f"graph-embed:{kind}"
            if kind == "GraphEmbed" and np.array_equal(A, np.identity(k)):
                sig = "graph-embed:GraphEmbed:identity-adjacency-emits-nothing"
            rp = dict(kind="matrix", mkind=kind, spec=spec, A=dec02.enc(A), mean=mean, sig=sig)
            ctx.count(f"graph-embed:{kind}", dict(A=np.round(A, 4).tolist(), r=regs, m=mean), True)
        matrix_case(ctx, sf, rp)



# ------------------------------------------------------------------ templates of the matrix operations

def _finite(x):
    x = float(np.real(x))
    return x if math.isfinite(x) else 0.0


def _mat_name(kid, named):
    """names of all candidate matrices equal to the kid's matrix (several factors may coincide)"""
    M = kid.op.p[0]
    Mn = np.asarray(M)
    return sorted({name for name, ref in named
                   if ref is not None and (M is ref or (np.shape(ref) == Mn.shape and np.array_equal(np.asarray(ref), Mn)))})


def xcanon_real(kids, named):
    out = []
    for k in kids:
        cls = type(k.op).__name__
        d = dict(cls=cls, regs=[r.ind for r in k.reg], pars=[], extra={})
        if cls == "Interferometer":
            d["extra"] = dict(mat=_mat_name(k, named), mesh=k.op.mesh, drop_identity=bool(k.op.drop_identity), tol=float(k.op.tol))
        elif cls == "GaussianTransform":
            d["extra"] = dict(mat=_mat_name(k, named), vacuum=bool(k.op.vacuum))
        else:
            d["pars"] = [dec02.pval(x) for x in k.op.p]
        out.append(d)
    return out


def xsame(model, real):
    if len(model) != len(real):
        return f"length {len(model)} vs {len(real)}: {[m['cls'] for m in model]} vs {[r['cls'] for r in real]}"
    for i, (m, r) in enumerate(zip(model, real)):
        if m["cls"] != r["cls"] or list(m["regs"]) != r["regs"]:
            return f"#{i}: {m['cls']}{m['regs']} vs {r['cls']}{r['regs']}"
        mp = [dec02.unfr(x) for x in m["pars"]]
        if len(mp) != len(r["pars"]) or any(abs(a - b) > 1e-9 * max(1, abs(a)) for a, b in zip(mp, r["pars"])):
            return f"#{i} {m['cls']}{m['regs']}: parameters {mp} vs {r['pars']}"
        for k, v in r["extra"].items():
            mv = m.get(k)
            if k == "tol":
                if abs(dec02.unfr(mv) - v) > 1e-15:
                    return f"#{i} {m['cls']}: tol {dec02.unfr(mv)} vs {v}"
            elif (mv not in v) if k == "mat" else (mv != v):
                return f"#{i} {m['cls']}{m['regs']}: option {k} = {mv} (model) vs {v}"
    return None


def corr_matrix_templates(ctx, sf):
    """GraphEmbed / BipartiteGraphEmbed / GaussianTransform / Gaussian `_decompose` vs the model templates: emitted
    classes, targets, parameters and the options (mesh, drop_identity, tol, vacuum) of the nested operations"""
    import inspect
    from strawberryfields import ops, decompositions as dec
    rng, rs = ctx.rng, ctx.nprng(8)
    sig = inspect.signature(ops.Interferometer.__init__).parameters
    dflt = dict(mesh=sig["mesh"].default, drop_identity=bool(sig["drop_identity"].default), tol=dec02.fr(sig["tol"].default))
    dtol = float(ops._decomposition_tol)
    cases, reqs = [], []
    for it in range(ctx.n(120, 2400)):
        kind = ("graph", "bipartite", "gtransform", "gaussian")[it % 4]
        k = rng.choice([2, 3, 4]) if kind != "bipartite" else rng.choice([2, 4, 6])
        big = k + rng.choice([0, 1, 9])
        prog = sf.Program(big)
        regidx = rng.sample(range(big), k)
        reg = [prog.register[i] for i in regidx]
        kw = {}
        if rng.random() < 0.6:
            kw["mesh"] = rng.choice(MESHES[:6])
        case = dict(kind=kind, reg=regidx, kw=dict(kw))
        try:
            if kind == "graph":
                A = np.triu(rs.integers(0, 2, (k, k)).astype(float), 1)
                A = A + A.T
                mode = it % 5
                if mode == 0:
                    A = np.identity(k)
                elif mode == 1:           # diagonal graph: U is (a permutation of) the identity
                    A = np.diag(np.round(rs.uniform(0.2, 1.0, k), 2))
                elif mode == 2:
                    A[0, :] = A[:, 0] = 0     # an isolated vertex: one vanishing squeezing value
                if not A.any():
                    A[0, -1] = A[-1, 0] = 1.0
                op = ops.GraphEmbed(A, mean_photon_per_mode=rng.choice([0.2, 1.0]))
                ident = bool(np.allclose(A, np.identity(k), atol=1e-13, rtol=0))
                sqv = [] if ident else [[dec02.fr(x), bool(abs(x) >= dtol)] for x in op.sq]
                uid = True if ident else bool(np.allclose(op.U, np.identity(k), atol=dtol, rtol=0))
                named = [("U", None if ident else op.U)]
                req = dict(op="c02.matrix_template", kind=kind, reg=regidx, defaults=dflt, identity=ident, sq=sqv, u_identity=uid)
                if "mesh" in kw:
                    req["kw_mesh"] = kw["mesh"]
                case["A"] = dec02.enc(A)
            elif kind == "bipartite":
                N = k // 2
                B = np.round(rs.uniform(0.1, 1.0, (N, N)), 2)
                mode = it % 6
                if mode == 0:
                    B = np.identity(N)
                elif mode == 1:
                    B = np.diag(np.round(rs.uniform(0.2, 1.0, N), 2))
                elif mode == 2 and N >= 2:
                    B[0, :] = 0
                    B[:, 0] = 0
                    B[0, 0] = 0.0         # an isolated pair: vanishing two-mode squeezing
                sd, st, mp = rng.random() < 0.5, rng.choice([1e-6, 1e-4]), rng.choice([0.2, 1.0])
                edges = rng.random() < 0.7
                Ain = B if edges else np.block([[np.zeros((N, N)), B], [B.T, np.zeros((N, N))]])
                op = ops.BipartiteGraphEmbed(Ain, mean_photon_per_mode=mp, edges=edges, drop_identity=sd, tol=st)
                if rng.random() < 0.5:
                    kw["drop_identity"] = rng.random() < 0.5
                if rng.random() < 0.4:
                    kw["tol"] = rng.choice([1e-5, 1e-7])
                if rng.random() < 0.3:
                    kw["mean_photon_per_mode"] = 0.5
                case["kw"] = dict(kw)
                sqf, U, V = dec.bipartite_graph_embed(B, mean_photon_per_mode=kw.get("mean_photon_per_mode", mp),
                                                      atol=kw.get("tol", st), rtol=0)
                named = [("I", np.identity(N)), ("U", U), ("V", V)]
                req = dict(op="c02.matrix_template", kind=kind, reg=regidx, identity=False, self_drop=sd, self_tol=dec02.fr(st),
                           sq=[[dec02.fr(x), bool(abs(x) >= dtol)] for x in sqf],
                           u_identity=bool(np.allclose(U, np.identity(N), atol=dtol, rtol=0)),
                           v_identity=bool(np.allclose(V, np.identity(N), atol=dtol, rtol=0)))
                for a, b in (("mesh", "kw_mesh"), ("drop_identity", "kw_drop")):
                    if a in kw:
                        req[b] = kw[a]
                if "tol" in kw:
                    req["kw_tol"] = dec02.fr(kw["tol"])
                case.update(B=dec02.enc(B), edges=edges, self_drop=sd)
            elif kind == "gtransform":
                skind = rng.choice(["generic", "passive", "identity", "one_unsqueezed", "partial", "signs", "diag", "left_only"])
                S = d17.symplectic_case(rs, k, skind)
                vac = rng.random() < 0.4
                op = ops.GaussianTransform(S, vacuum=vac)
                sqv = []
                if op.active:
                    for e in op.Sq:
                        le = np.log(e)
                        sqv.append([bool(abs(e - 1) >= dtol), dec02.fr(_finite(abs(le))), dec02.fr(_finite(np.angle(le)))])
                named = [("U1", op.U1), ("U2", getattr(op, "U2", None))]
                req = dict(op="c02.matrix_template", kind=kind, reg=regidx, defaults=dflt, active=bool(op.active), vacuum=vac, sq=sqv)
                if "mesh" in kw:
                    req["kw_mesh"] = kw["mesh"]
                case.update(S=dec02.enc(S), vacuum=vac, skind=skind)
            else:
                branch = GAUSS_KINDS[(it // 4) % len(GAUSS_KINDS)]
                hbar = rng.choice([2.0, 1.0])
                sf.hbar = hbar
                V2 = gaussian_cov_case(rng, rs, k, branch)
                r = [rng.choice([0.0, 0.0, 0.3, -0.5]) for _ in range(2 * k)]
                op = ops.Gaussian(V2 * hbar / 2, np.array(r))
                kw = {}
                case["kw"] = {}
                V2 = V2 * hbar / 2 / (hbar / 2)
                D = np.diag(V2)
                is_diag = bool(np.all(V2 == np.diag(D)))
                BD = xpxp_of(V2)
                blocks = [BD[2 * i:2 * i + 2, 2 * i:2 * i + 2] for i in range(k)]
                from scipy.linalg import block_diag
                is_bd = (not is_diag) and bool(np.all(BD == block_diag(*blocks)))
                pure = bool(abs(np.linalg.det(V2) - 1.0) < 1e-6)
                modes = []
                with np.errstate(all="ignore"):
                    for n_ in range(k):
                        v = blocks[n_]
                        nb = 0.5 * (D[n_] - 1.0)
                        modes.append(dict(
                            diagBig=bool(abs(D[n_] - 1) >= dtol), diagR=dec02.fr(_finite(abs(np.log(D[n_]) / 2))),
                            diagSmall=bool(D[n_] < 1), rotBig=bool(not np.all(v - np.identity(2) < dtol)),
                            rotR=dec02.fr(_finite(abs(np.arccosh(np.sum(np.diag(v)) / 2)) / 2)),
                            rotPhi=dec02.fr(_finite(np.arctan2(-2 * v[0, 1], v[1, 1] - v[0, 0]))),
                            thBig=bool(nb >= dtol), thNbar=dec02.fr(nb), wBig=bool(abs(op.nbar[n_]) >= dtol),
                            wNbar=dec02.fr(op.nbar[n_])))
                named = [("S", op.S)]
                req = dict(op="c02.matrix_template", kind=kind, reg=regidx, pi=dec02.fr(math.pi), pure=pure, is_diag=is_diag,
                           is_block_diag=is_bd, thermal_diag=bool(is_diag and np.all(D[:k] == D[k:])), modes=modes,
                           xdisp=[[dec02.fr(u), bool(u != 0)] for u in r[:k]], pdisp=[[dec02.fr(u), bool(u != 0)] for u in r[k:]])
                case.update(V2=dec02.enc(V2), r=r, hbar=hbar, branch=branch)
            real = xcanon_real(op._decompose(reg, **kw), named)
        except ValueError:
            ctx.tally("matrix-template:factorisation-rejected-input")
            sf.hbar = 2.0
            continue
        except Exception as e:  # noqa: BLE001
            sf.hbar = 2.0
            ctx.fail(f"raises:matrix-template:{kind}:{type(e).__name__}", f"{kind} _decompose raised {type(e).__name__}: {e}",
                     dict(kind="none", case=case))
            continue
        sf.hbar = 2.0
        cases.append((case, real))
        reqs.append(req)
        ctx.count(f"matrix-template:{kind}:{case.get('branch', case.get('skind', ''))}", case, True,
                  sample=dict(kind=kind, targets=regidx, kw=case["kw"]))
        for d in real:
            if d["cls"] == "Interferometer":
                ctx.tally(f"nested-interferometer:mesh={d['extra']['mesh']}:drop={d['extra']['drop_identity']}")
    for (case, real), res in zip(cases, ctx.lean(reqs)):
        ctx.corr_cases += 1
        if isinstance(res, dict) and "__error__" in res:
            ctx.disagree("matrix-template", case, res, real)
            continue
        d = xsame(res, real)
        if d:
            ctx.disagree("matrix-template", case, d, real)


def xpxp_of(M):
    n = M.shape[0] // 2
    perm = [j for i in range(n) for j in (i, i + n)]
    return M[np.ix_(perm, perm)]


# ------------------------------------------------------------------ sharing, history, holes, primitives (lessons 1-3, 5)

def snapshot_op(op):
    """deep, comparable snapshot of an operation's observable fields"""
    ps = []
    for x in op.p:
        try:
            ps.append(str(np.round(np.asarray(x, dtype=complex), 12).tolist()))
        except Exception:  # noqa: BLE001
            ps.append(str(x))
    return json.dumps([type(op).__name__, ps, bool(getattr(op, "dagger", False)),
                       [str(getattr(op, a, None)) for a in ("mesh", "drop_identity", "vacuum", "decomp", "tol", "identity")]])


def rand_decomposable(rng, rs, k_max=4):
    """(spec-op without regs, number of modes) of a random decomposable operation, scalar or matrix"""
    if rng.random() < 0.55:
        cls = rng.choice(SCALAR1 + SCALAR2)
        return dict(cls=cls, pars=scalar_pars(rng, cls, small=False), dagger=rng.random() < 0.6), nmodes(cls)
    op = rand_matrix_op(rng, rs, k_max)
    k = len(op.pop("regs"))
    if op["cls"] == "Gaussian":
        op["kw"]["decomp"] = True
    return op, k


def history_case(ctx, sf, op, k, regsA, regsB, big, rp):
    """decompose called twice on ONE object (and once on other targets) = decomposition of a fresh equal object;
    the object itself (parameters, flags) is left untouched"""
    spec0 = dict(n=big, ops=[])
    prog = dec02.build_prog(spec0)
    name = op["cls"] + (".H" if op.get("dagger") else "")
    try:
        o = dec02.build_prog(dict(n=big, ops=[dict(op, regs=regsA)])).circuit[0].op
        before = snapshot_op(o)
        first = [content(c) for c in o.decompose([prog.register[i] for i in regsA])]
        other = [content(c) for c in o.decompose([prog.register[i] for i in regsB])]
        second = [content(c) for c in o.decompose([prog.register[i] for i in regsA])]
        after = snapshot_op(o)
        fresh = dec02.build_prog(dict(n=big, ops=[dict(op, regs=regsA)])).circuit[0].op
        want = [content(c) for c in fresh.decompose([prog.register[i] for i in regsA])]
        freshB = dec02.build_prog(dict(n=big, ops=[dict(op, regs=regsB)])).circuit[0].op
        wantB = [content(c) for c in freshB.decompose([prog.register[i] for i in regsB])]
    except ValueError:
        ctx.tally("history:factorisation-rejected-input")
        return
    except Exception as e:  # noqa: BLE001
        ctx.fail(f"raises:history:{name}:{type(e).__name__}", f"{name}.decompose raised {type(e).__name__}: {e}", rp)
        return
    ctx.oracle_cases += 1
    if before != after:
        ctx.fail(f"history:{op['cls']}:decompose-modifies-the-operation", f"{name}.decompose changed the operation object", rp)
    elif first != want or second != want:
        which = "first" if first != want else "second"
        ctx.fail(f"history:{op['cls']}:repeated-decompose-differs",
                 f"{name} on {regsA}: the {which} decompose() of one object differs from the decomposition of a fresh equal object", rp)
    elif other != wantB:
        ctx.fail(f"history:{op['cls']}:decompose-depends-on-earlier-call",
                 f"{name}: decompose on {regsB} after a call on {regsA} differs from a fresh object's", rp)


def driver_history_case(ctx, sf, spec, cname, rp):
    """Compiler.decompose twice on ONE circuit with shared Operation instances: same output, inputs untouched"""
    from strawberryfields.compilers import compiler_db
    try:
        prog = dec02.build_prog(spec, op_cache={})
        circuit = list(prog.circuit)
        before = [snapshot_op(c.op) for c in circuit]
        comp = compiler_db[cname]()
        out1 = [content(c) for c in comp.decompose(circuit)]
        out2 = [content(c) for c in comp.decompose(circuit)]
        after = [snapshot_op(c.op) for c in circuit]
        want = [content(c) for c in compiler_db[cname]().decompose(list(dec02.build_prog(spec).circuit))]
    except ValueError:
        ctx.tally("history:factorisation-rejected-input")
        return
    except Exception as e:  # noqa: BLE001
        if type(e).__name__ in ("CircuitError", "NotImplementedError"):
            ctx.tally("history:driver-rejects")
            return
        ctx.fail(f"raises:driver-history:{type(e).__name__}", f"Compiler.decompose raised {type(e).__name__}: {e}", rp)
        return
    ctx.oracle_cases += 1
    if before != after:
        ctx.fail("history:driver:modifies-input-operations", f"{cname}: Compiler.decompose changed the operations of its input", rp)
    elif out1 != want or out2 != want:
        ctx.fail("history:driver:shared-or-repeated-differs",
                 f"{cname}: decomposing a circuit with shared operation objects ({'first' if out1 != want else 'second'} call) differs "
                 f"from decomposing the same circuit built from fresh objects", rp)


def oracle_history(ctx, sf):
    rng, rs = ctx.rng, ctx.nprng(6)
    for it in range(ctx.n(70, 1200)):
        op, k = rand_decomposable(rng, rs)
        big = 13
        regsA = rng.sample(range(big), k)
        regsB = sorted(rng.sample(range(big), k), reverse=True)
        rp = dict(kind="history", op=op, k=k, regsA=regsA, regsB=regsB, big=big)
        ctx.count(f"history:{op['cls']}", dict(o=str(op)[:300], a=regsA, b=regsB), True,
                  sample=dict(cls=op["cls"], dagger=op.get("dagger"), targets=regsA, second_targets=regsB))
        history_case(ctx, sf, op, k, regsA, regsB, big, rp)
    pool = SCALAR1 + SCALAR2
    for it in range(ctx.n(45, 600)):
        cname = COMPILERS[it % 3]
        n = 12
        base = []
        for _ in range(rng.randint(1, 3)):
            cls = rng.choice(pool if cname != "bosonic" else [c for c in pool if c != "sMZgate"])
            base.append(dict(cls=cls, pars=scalar_pars(rng, cls), dagger=rng.random() < 0.6))
        if cname != "bosonic" and rng.random() < 0.4:
            mop = rand_matrix_op(rng, rs, 4)
            mop.pop("regs")
            base.append(mop)
        ops_ = []
        for _ in range(rng.randint(3, 7)):      # every operation object is used several times, on different targets
            b = rng.choice(base)
            k = nmodes(b["cls"]) if b["cls"] not in dec02.MATRIX_CLASSES else _matrix_modes(b)
            ops_.append(dict(b, regs=rng.sample(range(n), k)))
        spec = dict(n=n, ops=ops_)
        rp = dict(kind="driver-history", spec=spec, compiler=cname)
        ctx.count(f"history:driver:{cname}", dict(s=str(spec)[:400]), True)
        driver_history_case(ctx, sf, spec, cname, rp)


def _matrix_modes(op):
    M = np.asarray(dec02.dec(op["pars"][0]))
    k = M.shape[0]
    if op["cls"] in ("GaussianTransform", "Gaussian"):
        return k // 2
    if op["cls"] == "BipartiteGraphEmbed" and op.get("kw", {}).get("edges"):
        return 2 * k
    return k


PRIMS = ["Dgate", "Rgate", "Sgate", "BSgate"]


def oracle_holes_sharing(ctx, sf):
    """shared Operation instances applied several times; registers with holes; descending and multi-digit mode indices;
    natively applied primitives with the inverse flag (Gate.apply) — all against the independent reference"""
    rng = ctx.rng
    for it in range(ctx.n(60, 900)):
        backend = ("gaussian", "bosonic", "gaussian", "fock")[it % 4]
        fock = backend == "fock"
        n = 3 if fock else rng.choice([5, 12])
        classes = SCALAR1 + SCALAR2 + PRIMS
        if backend == "bosonic":
            classes = [c for c in classes if c != "sMZgate"]
        pre = prefix_ops(rng, min(n, 4), fock=fock)
        if n > 4:       # move the correlated prefix to scattered (multi-digit) modes
            where = rng.sample(range(n), 4)
            pre = [dict(o, regs=[where[r] for r in o["regs"]]) for o in pre]
        dead = []
        if not fock and rng.random() < 0.7:
            dead = [rng.randrange(n)]           # a mode deleted before the operations under test: register with a hole
            pre.append(dict(cls="Del", regs=dead, pars=[]))
        live = [m for m in range(n) if m not in dead]
        base = []
        for _ in range(2):
            cls = rng.choice(classes)
            base.append(dict(cls=cls, pars=scalar_pars(rng, cls, small=True), dagger=rng.random() < 0.6))
        ops_ = []
        for j in range(rng.randint(2, 4)):      # the same operation objects on several target tuples
            b = base[j % 2]
            regs = rng.sample(live, nmodes(b["cls"]))
            if j == 1 and len(regs) == 2:
                regs = sorted(regs, reverse=True)
            ops_.append(dict(cls=b["cls"], pars=b["pars"], regs=regs, **({"dagger": True} if b["dagger"] else {})))
        spec = dict(n=n, ops=pre + ops_)
        rp = dict(kind="shared", spec=spec, backend=backend, hbar=2.0, shared=True)
        names = "+".join(sorted({o["cls"] + (".H" if o.get("dagger") else "") for o in ops_}))
        ctx.count(f"shared-holes:{backend}:n={n}:hole={bool(dead)}", dict(s=str(spec)[:600], b=backend), True,
                  sample=dict(ops=ops_, deleted=dead, n=n, backend=backend))
        try:
            compare_to_reference(ctx, sf, spec, backend, 2.0, rp, f"shared-holes:{names}:{backend}",
                                 f"{names} (shared objects, deleted modes {dead}) on {[o['regs'] for o in ops_]}")
        except Exception as e:  # noqa: BLE001
            ctx.fail(f"raises:shared-holes:{backend}:{type(e).__name__}", f"{names} on {backend} raised {type(e).__name__}: {e}", rp)


def oracle_tolerance(ctx, sf):
    """the `tol` argument reaches the factorisation: a unitary off by ~1e-5 is accepted with tol=1e-3 by every mesh,
    alone and nested in BipartiteGraphEmbed, and the emitted circuit is U to that accuracy"""
    from strawberryfields import ops
    rng, rs = ctx.rng, ctx.nprng(7)
    for it in range(ctx.n(21, 210)):
        mesh = MESHES[it % 7]
        m = rng.randint(3, 5)
        U = unitary(rs, m, "haar")
        Un = U + 1e-5 * (rs.standard_normal((m, m)) + 1j * rs.standard_normal((m, m)))
        prog = sf.Program(m)
        rp = dict(kind="tolerance", U=dec02.enc(Un), mesh=mesh)
        ctx.count(f"tolerance:{mesh}", dict(m=mesh, it=it), True)
        tolerance_case(ctx, sf, Un, mesh, rp)


def tolerance_case(ctx, sf, Un, mesh, rp):
    from strawberryfields import ops
    m = Un.shape[0]
    prog = sf.Program(m)
    try:
        cmds = ops.Interferometer(Un, mesh=mesh, tol=1e-3).decompose(list(prog.register))
    except Exception as e:  # noqa: BLE001
        ctx.fail(f"tolerance:{mesh}:tol-not-honoured", f"Interferometer(U, mesh={mesh}, tol=1e-3) with |UU^+ - 1| ~ 1e-5 raised "
                                                       f"{type(e).__name__}: {e}", rp)
        return
    ctx.oracle_cases += 1
    W = dec02.circuit_unitary(cmds, m)
    if np.max(np.abs(W - Un)) > 2e-3:
        ctx.fail(f"tolerance:{mesh}:circuit-is-not-U", f"mesh {mesh}: circuit differs from the (almost unitary) input by "
                                                      f"{np.max(np.abs(W - Un)):.3g}", rp)


# ------------------------------------------------------------------ options reach the nested decompositions (lesson 4)

def nested_interferometers(cmds, kw, depth=0):
    """all Interferometer commands reachable from `cmds`, expanding GaussianTransform with the same keywords"""
    out = []
    for c in cmds:
        name = type(c.op).__name__
        if name == "Interferometer":
            out.append(c)
        elif name == "GaussianTransform" and depth < 3:
            out += nested_interferometers(c.op.decompose(c.reg, **{k: v for k, v in kw.items() if k == "mesh"}), kw, depth + 1)
    return out


def options_case(ctx, sf, spec, kw, rp):
    """RULE: an option given to decompose() is carried by every interferometer the decomposition creates"""
    try:
        prog = dec02.build_prog(spec)
        cmd = prog.circuit[0]
        inter = nested_interferometers(cmd.op.decompose(cmd.reg, **kw), kw)
    except ValueError:
        ctx.tally("options:factorisation-rejected-input")
        return
    except Exception as e:  # noqa: BLE001
        ctx.fail(f"raises:options:{spec['ops'][0]['cls']}:{type(e).__name__}", f"decompose(**{kw}) raised {type(e).__name__}: {e}", rp)
        return
    ctx.oracle_cases += 1
    cls = spec["ops"][0]["cls"]
    honoured = ["mesh"] + (["drop_identity", "tol"] if cls == "BipartiteGraphEmbed" else [])
    for c in inter:
        for k in honoured:
            if k in kw and getattr(c.op, k) != kw[k]:
                ctx.fail(f"option-not-honoured:{k}:{cls}",
                         f"{cls}.decompose({k}={kw[k]!r}) creates an Interferometer on {[r.ind for r in c.reg]} with {k}={getattr(c.op, k)!r}", rp)
                return


def compiler_options_case(ctx, sf, spec, cname, rp):
    """RULE: the keywords a compiler lists for a decomposition reach the operations that decomposition creates"""
    from strawberryfields.compilers import compiler_db
    comp = compiler_db[cname]()
    try:
        out = comp.decompose(list(dec02.build_prog(spec).circuit))
    except Exception as e:  # noqa: BLE001
        ctx.fail(f"raises:compiler-options:{cname}:{type(e).__name__}", f"{cname}.decompose raised {type(e).__name__}: {e}", rp)
        return
    ctx.oracle_cases += 1
    kw = comp.decompositions[spec["ops"][0]["cls"]]
    for c in out:
        if type(c.op).__name__ == "Interferometer":
            for k, v in kw.items():
                if hasattr(c.op, k) and getattr(c.op, k) != v:
                    ctx.fail(f"compiler-option-not-honoured:{cname}:{k}",
                             f"{cname} lists {k}={v!r} for {spec['ops'][0]['cls']}, but the compiled Interferometer on "
                             f"{[r.ind for r in c.reg]} has {k}={getattr(c.op, k)!r}", rp)
                    return


def oracle_options(ctx, sf):
    from strawberryfields.compilers import compiler_db
    rng, rs = ctx.rng, ctx.nprng(9)
    for it in range(ctx.n(36, 400)):
        cls = ("GraphEmbed", "BipartiteGraphEmbed", "GaussianTransform")[it % 3]
        k = rng.choice([2, 3, 4]) if cls != "BipartiteGraphEmbed" else rng.choice([2, 4])
        n = k + rng.choice([0, 8])
        regs = rng.sample(range(n), k)
        kw = dict(mesh=rng.choice(MESHES[1:6]))
        if cls == "GraphEmbed":
            A = np.triu(rs.integers(0, 2, (k, k)).astype(float), 1)
            A = A + A.T
            A[0, -1] = A[-1, 0] = 1.0
            op = dict(cls=cls, regs=regs, pars=[dec02.enc(A)], kw=dict(mean_photon_per_mode=0.3))
        elif cls == "BipartiteGraphEmbed":
            B = np.round(rs.uniform(0.1, 1.0, (k // 2, k // 2)), 2)
            op = dict(cls=cls, regs=regs, pars=[dec02.enc(B)], kw=dict(mean_photon_per_mode=0.3, edges=True,
                                                                     drop_identity=rng.random() < 0.5))
            kw.update(drop_identity=rng.random() < 0.5, tol=rng.choice([1e-5, 1e-7]))
        else:
            op = dict(cls=cls, regs=regs, pars=[dec02.enc(d17.symplectic_case(rs, k, rng.choice(["generic", "signs", "one_unsqueezed"])))],
                      kw=dict(vacuum=False))
        spec = dict(n=n, ops=[op])
        rp = dict(kind="options", spec=spec, kw=kw)
        ctx.count(f"options:{cls}:mesh={kw['mesh']}", dict(s=str(spec)[:300], k=kw), True, sample=dict(cls=cls, kw=kw, targets=regs))
        options_case(ctx, sf, spec, kw, rp)
    with_kw = [(c, name) for c in sorted(compiler_db) for name, v in (getattr(compiler_db[c], "decompositions", {}) or {}).items() if v]
    for it in range(ctx.n(10, 100)):
        if not with_kw:
            break
        cname, name = with_kw[it % len(with_kw)]
        if name != "BipartiteGraphEmbed":
            ctx.tally(f"options:compiler-kwargs-for-unmodelled-class:{name}")
            continue
        kb = rng.choice([1, 2, 3])
        spec = dict(n=8, ops=[dict(cls=name, regs=rng.sample(range(8), 2 * kb),
                                   pars=[dec02.enc(np.round(rs.uniform(0.1, 1.0, (kb, kb)), 2))],
                                   kw=dict(mean_photon_per_mode=0.3, edges=True))])
        rp = dict(kind="compiler-options", spec=spec, compiler=cname)
        ctx.count(f"options:compiler:{cname}", dict(s=str(spec)[:300]), True)
        compiler_options_case(ctx, sf, spec, cname, rp)


# ------------------------------------------------------------------ option history: one object, changing options

def rand_kwargs(rng, cls, k):
    """keywords `cls._decompose` reads, drawn afresh for every call"""
    kw = {}
    meshes = MESHES if k >= 3 else MESHES[:6]
    if cls == "Interferometer":
        if rng.random() < 0.85:
            kw["mesh"] = rng.choice(meshes)
        if rng.random() < 0.4:
            kw["drop_identity"] = rng.random() < 0.5
        if rng.random() < 0.3:
            kw["tol"] = rng.choice([1e-5, 1e-7, 1e-6])
    elif cls in ("GraphEmbed", "GaussianTransform"):
        if rng.random() < 0.85:
            kw["mesh"] = rng.choice(meshes[:6])
    elif cls == "BipartiteGraphEmbed":
        if rng.random() < 0.8:
            kw["mesh"] = rng.choice(MESHES[:6] if k >= 6 else MESHES[:4] + MESHES[4:6])
        if rng.random() < 0.4:
            kw["drop_identity"] = rng.random() < 0.5
        if rng.random() < 0.3:
            kw["tol"] = rng.choice([1e-5, 1e-7])
        if rng.random() < 0.4:
            kw["mean_photon_per_mode"] = rng.choice([0.2, 0.5, 1.0])
    return kw


def deep_unitary(cmds, pos, m, kw, depth=0):
    """unitary of a passive command list, expanding nested Interferometers with their own defaults"""
    flat = []
    for c in cmds:
        if type(c.op).__name__ == "Interferometer" and depth < 3:
            flat += c.op.decompose(c.reg)
        else:
            flat.append(c)
    return dec02.circuit_unitary(flat, m, pos)


def option_history_case(ctx, sf, op, calls, big, rp):
    """ONE operation object decomposed several times with different targets AND different options (A, B, A, ...): every
    call equals the decomposition of a freshly built equal object with the same options, and (Interferometer) is U"""
    name = op["cls"]
    prog = dec02.build_prog(dict(n=big, ops=[]))
    try:
        o = dec02.build_prog(dict(n=big, ops=[dict(op, regs=calls[0][0])])).circuit[0].op
        before = snapshot_op(o)
        outs = []
        for regs, kw in calls:
            outs.append(o.decompose([prog.register[i] for i in regs], **kw))
        after = snapshot_op(o)
        wants = []
        for regs, kw in calls:
            f = dec02.build_prog(dict(n=big, ops=[dict(op, regs=regs)])).circuit[0].op
            wants.append(f.decompose([prog.register[i] for i in regs], **kw))
    except ValueError:
        ctx.tally("option-history:factorisation-rejected-input")
        return
    except Exception as e:  # noqa: BLE001
        ctx.fail(f"raises:option-history:{name}:{type(e).__name__}", f"{name}.decompose raised {type(e).__name__}: {e}", rp)
        return
    ctx.oracle_cases += 1
    if before != after:
        ctx.fail(f"history:{name}:decompose-modifies-the-operation", f"{name}.decompose changed the visible fields of the operation", rp)
        return
    for i, ((regs, kw), out, want) in enumerate(zip(calls, outs, wants)):
        if name == "Interferometer":
            U = np.asarray(dec02.dec(op["pars"][0]), dtype=complex)
            pos = {r: j for j, r in enumerate(regs)}
            W = deep_unitary(out, pos, len(regs), kw)
            err = float(np.max(np.abs(W - U)))
            if err > 1e-8:
                ctx.fail("option-history:Interferometer:circuit-is-not-U",
                         f"Interferometer on {regs}: decompose(**{kw}) as call #{i + 1} on one object (earlier calls used "
                         f"{[c[1] for c in calls[:i]]}) gives a circuit that differs from U by {err:.3g}", rp)
                return
        if [content(c) for c in out] != [content(c) for c in want]:
            prev = [c[1] for c in calls[:i]]
            ctx.fail(f"option-history:{name}:call-depends-on-earlier-options",
                     f"{name} on {regs}: decompose(**{kw}) as call #{i + 1} on one object (earlier calls used {prev}) differs from the "
                     f"same call on a freshly built equal object", rp)
            return


def make_target(base, tables):
    from strawberryfields.compilers import compiler_db
    cls = compiler_db[base]

    class Target(cls):      # pylint: disable=too-few-public-methods
        short_name = base + "_c02"
        decompositions = dict(cls.decompositions)
    for k, v in tables.items():
        Target.decompositions[k] = dict(v)
    return Target()


def table_history_case(ctx, sf, spec, base, tables_seq, rp):
    """ONE circuit (shared operation objects) compiled by several targets in a row whose decompositions tables ask for
    different options: every result equals what the same target makes of a freshly built circuit"""
    try:
        circuit = list(dec02.build_prog(spec, op_cache={}).circuit)
        outs = [[content(c) for c in make_target(base, t).decompose(circuit)] for t in tables_seq]
        wants = [[content(c) for c in make_target(base, t).decompose(list(dec02.build_prog(spec).circuit))] for t in tables_seq]
    except ValueError:
        ctx.tally("option-history:factorisation-rejected-input")
        return
    except Exception as e:  # noqa: BLE001
        ctx.fail(f"raises:table-history:{type(e).__name__}", f"Compiler.decompose raised {type(e).__name__}: {e}", rp)
        return
    ctx.oracle_cases += 1
    for i, (t, out, want) in enumerate(zip(tables_seq, outs, wants)):
        if out != want:
            ctx.fail("option-history:compiler-tables:result-depends-on-earlier-compilation",
                     f"{base}: compiling one circuit with table options {t} as compilation #{i + 1} (earlier tables: {tables_seq[:i]}) "
                     f"differs from compiling a freshly built equal circuit", rp)
            return


def oracle_option_history(ctx, sf):
    rng, rs = ctx.rng, ctx.nprng(10)
    for it in range(ctx.n(70, 1200)):
        cls = ("Interferometer", "Interferometer", "GraphEmbed", "BipartiteGraphEmbed", "GaussianTransform", "Interferometer")[it % 6]
        while True:
            op = rand_matrix_op(rng, rs, 5)
            if op["cls"] == cls:
                break
        k = len(op.pop("regs"))
        if cls == "Interferometer":
            op["pars"] = [dec02.enc(unitary(rs, k, rng.choice(["haar", "haar", "perm_phase", "block", "givens2", "diag_phase"])))]
            op["kw"] = dict(mesh=rng.choice(MESHES if k >= 3 else MESHES[:6]), drop_identity=rng.random() < 0.5)
        big = 13
        ncalls = rng.choice([2, 3, 3, 4])
        calls = []
        for j in range(ncalls):
            regs = rng.sample(range(big), k)
            if j == 2:                      # A, B, A: the third call repeats the first one
                calls.append((calls[0][0], dict(calls[0][1])))
            else:
                calls.append((regs, rand_kwargs(rng, cls, k)))
        rp = dict(kind="option-history", op=op, calls=[[r, kw] for r, kw in calls], big=big)
        ctx.count(f"option-history:{cls}", dict(o=str(op)[:300], c=str(calls)), True,
                  sample=dict(cls=cls, own_options=op.get("kw"), calls=[kw for _, kw in calls]))
        for _, kw in calls:
            ctx.tally("option-history:call-mesh=" + str(kw.get("mesh", "(own)")))
        option_history_case(ctx, sf, op, calls, big, rp)
    for it in range(ctx.n(30, 400)):
        base = ("gaussian", "fock")[it % 2]
        n = 12
        ops_ = []
        for _ in range(rng.randint(1, 2)):
            cls = rng.choice(["Interferometer", "Interferometer", "GraphEmbed", "GaussianTransform", "BipartiteGraphEmbed"])
            while True:
                o = rand_matrix_op(rng, rs, n)
                if o["cls"] == cls:
                    break
            ops_.append(o)
            if rng.random() < 0.5:          # the same operation object a second time, on other targets
                ops_.append(dict(o, regs=rng.sample(range(n), len(o["regs"]))))
        spec = dict(n=n, ops=ops_)
        kmin = min(len(o["regs"]) for o in ops_)
        seq = []
        for j in range(rng.choice([2, 3, 3])):
            if j == 2:
                seq.append(seq[0])
                continue
            t = {}
            for cls in {o["cls"] for o in ops_} | {"Interferometer"}:
                kw = rand_kwargs(rng, cls, 2 if cls != "BipartiteGraphEmbed" else 4)   # meshes valid for every size
                kw.pop("mean_photon_per_mode", None)
                t[cls] = kw
            seq.append(t)
        rp = dict(kind="table-history", spec=spec, base=base, tables=seq)
        ctx.count(f"option-history:compiler-tables:{base}", dict(s=str(spec)[:300], t=str(seq)), True)
        table_history_case(ctx, sf, spec, base, seq, rp)


# ================================================================== entry points

def run_corpus(ctx, sf):
    d = core.VERIF / "corpus" / "C02"
    for f in sorted(d.glob("*.json")) if d.exists() else []:
        rp = json.loads(f.read_text())
        ctx.count("corpus", rp.get("note", f.name), True)
        replay_one(ctx, sf, rp["replay"])


def run(ctx, sf):
    sf.hbar = 2.0
    run_corpus(ctx, sf)
    if ctx.proof_ok:
        corr_templates(ctx, sf)
        corr_driver(ctx, sf)
        corr_mesh(ctx, sf)
        corr_matrix_templates(ctx, sf)
    oracle_scalar(ctx, sf)
    oracle_native_vs_decomposed(ctx, sf)
    oracle_interferometer(ctx, sf)
    oracle_gaussian_prep(ctx, sf)
    oracle_matrix_ops(ctx, sf)
    oracle_graph_embed(ctx, sf)
    oracle_history(ctx, sf)
    oracle_option_history(ctx, sf)
    oracle_holes_sharing(ctx, sf)
    oracle_tolerance(ctx, sf)
    oracle_options(ctx, sf)
    sf.hbar = 2.0


def search(ctx, sf):
    ctx.proof_ok_saved = ctx.proof_ok
    ctx.proof_ok = False          # the extended search only re-runs the oracles (budgets x boost)
    try:
        run(ctx, sf)
    finally:
        ctx.proof_ok = ctx.proof_ok_saved


def replay_one(ctx, sf, rp):
    kind = rp["kind"]
    if kind == "none":
        return
    if kind == "scalar":
        spec = rp["spec"]
        op = spec["ops"][-1]
        scalar_case(ctx, sf, op["cls"], op["pars"], op["regs"], bool(op.get("dagger")), spec["n"], rp["backend"], rp["hbar"],
                    spec["ops"][:-1])
    elif kind == "native":
        native_case(ctx, sf, rp["spec"], rp["backend"], rp)
    elif kind == "interferometer":
        interferometer_case(ctx, sf, np.asarray(dec02.dec(rp["U"])), rp["mesh"], rp["drop"], rp["reg"], rp["big"], rp)
    elif kind == "gaussian-prep":
        gaussian_case(ctx, sf, np.asarray(dec02.dec(rp["V2"])), rp["r"], rp["reg"], rp["n"], rp["hbar"], rp["backend"], rp)
    elif kind == "history":
        history_case(ctx, sf, rp["op"], rp["k"], rp["regsA"], rp["regsB"], rp["big"], rp)
    elif kind == "driver-history":
        driver_history_case(ctx, sf, rp["spec"], rp["compiler"], rp)
    elif kind == "shared":
        compare_to_reference(ctx, sf, rp["spec"], rp["backend"], rp["hbar"], rp, "shared-holes:replay", "replay")
    elif kind == "option-history":
        option_history_case(ctx, sf, rp["op"], [(r, kw) for r, kw in rp["calls"]], rp["big"], rp)
    elif kind == "table-history":
        table_history_case(ctx, sf, rp["spec"], rp["base"], rp["tables"], rp)
    elif kind == "options":
        options_case(ctx, sf, rp["spec"], rp["kw"], rp)
    elif kind == "compiler-options":
        compiler_options_case(ctx, sf, rp["spec"], rp["compiler"], rp)
    elif kind == "tolerance":
        tolerance_case(ctx, sf, np.asarray(dec02.dec(rp["U"])), rp["mesh"], rp)
    elif kind == "matrix":
        if "mkind" in rp:
            matrix_case(ctx, sf, rp)
        else:
            compare_to_reference(ctx, sf, rp["spec"], rp["backend"], rp["hbar"], rp, rp["sig"], rp["sig"])


def replay(ctx, rp):
    import strawberryfields as sf
    n0 = len(ctx.failures)
    sf.hbar = 2.0
    replay_one(ctx, sf, rp)
    sf.hbar = 2.0
    return len(ctx.failures) > n0
