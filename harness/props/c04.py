"""C04 — reorderings respect dependencies.  Correspondence of the K1 model with
program_utils.{list_to_grid, grid_to_DAG, DAG_to_list, group_operations} and compilers/gbs.py,
plus the property-level oracle on every list the real code returns."""
import itertools

import numpy as np

from lib import progs

RULE = ("random circuits over 1-6 modes (thorough: 1-9), 0-14 commands from all gate/channel/preparation/"
        "measurement families incl. measured-parameter dependencies; thorough additionally enumerates every "
        "sequence of <=3 letters of a 24-letter alphabet on 3 modes.  A case is non-trivial when it has >=2 "
        "commands sharing a wire and >=1 independent pair; distinct = distinct (function, spec) pairs.  "
        "Plus hybrid circuits (1-4 modes, 2-14 commands, exactly cancelling Gaussian blocks between non-Gaussian gates) "
        "compiled with 'gaussian_merge': order, presence and placement of the commands it hands through are judged by "
        "the Python order check (the merge surgery itself is modelled and proved under C11).")
ASSUMPTIONS = ["NetworkX topological sorts are only trusted to return a list; every returned list is validated "
               "by the proved checkers isLinExt/isLegal and by an independent Python order check",
               "merging Fock measurements of disjoint modes into one is semantically neutral (physical assumption)"]
TRUSTED = ["modelled: program_utils.list_to_grid/grid_to_DAG/DAG_to_list/group_operations, GBS.compile collection"]


def wires_of(spec):
    return [set(progs.op_wires(op)) for op in spec["ops"]]


def py_respects(spec, out_ids, src_ids=None):
    """independent statement of the property on id lists"""
    src = list(range(len(spec["ops"]))) if src_ids is None else list(src_ids)
    if sorted(out_ids) != sorted(src):
        return "not the same commands"
    w = wires_of(spec)
    pos = {c: i for i, c in enumerate(out_ids)}
    for x, y in itertools.combinations(src, 2):  # x before y in src
        if w[x] & w[y] and pos[x] > pos[y]:
            return f"commands {x} and {y} share a wire but were swapped"
    return None


def nontrivial(spec):
    w = wires_of(spec)
    dep = indep = False
    for x, y in itertools.combinations(range(len(w)), 2):
        if w[x] & w[y]:
            dep = True
        else:
            indep = True
    return dep and indep


class Recorder:
    """records what networkx.lexicographical_topological_sort returned inside group_operations"""

    def __init__(self):
        import networkx as nx
        self.mod = nx.algorithms.dag
        self.orig = self.mod.lexicographical_topological_sort
        self.calls = []

    def __enter__(self):
        def wrapped(G, key=None):
            out = list(self.orig(G, key=key))
            self.calls.append(out)
            return iter(out)
        self.mod.lexicographical_topological_sort = wrapped
        return self

    def __exit__(self, *a):
        self.mod.lexicographical_topological_sort = self.orig


def check_spec(ctx, sf, spec, reqs, pending, marked_cls=("MeasureFock",)):
    """run the real functions on `spec`; apply the Python oracle at once; queue model requests"""
    import strawberryfields.program_utils as pu
    from strawberryfields.compilers.gbs import GBS
    prog, cmds = progs.build(spec)
    ident = {id(c): i for i, c in enumerate(cmds)}
    marked = lambda op: op["cls"] in marked_cls
    if marked_cls == ("@feedforward",):       # predicates that tell apart two operations of ONE class
        marked = lambda op: any(isinstance(p_, dict) for p_ in op.get("pars", []))
    elif marked_cls == ("@selected",):
        marked = lambda op: op.get("select") is not None
    elif marked_cls == ("@positive",):
        marked = lambda op: bool(op.get("pars")) and not isinstance(op["pars"][0], dict) and op["pars"][0] > 0
    l = progs.to_cmds(spec, marked)
    nt = nontrivial(spec)

    def ids(seq):
        return [ident.get(id(c), -1) for c in seq]

    ctx.oracle_cases += 1          # every spec is judged by the independent order check `py_respects` below
    # 1. list_to_grid
    grid = pu.list_to_grid(cmds)
    g_impl = sorted([k, ids(v)] for k, v in grid.items())
    reqs.append(dict(op="grid", l=l)); pending.append(("grid", spec, g_impl))
    # 2. grid_to_DAG
    dag = pu.grid_to_DAG(grid)
    e_impl = sorted([ident[id(a)], ident[id(b)]] for a, b in dag.edges())
    n_impl = sorted(ids(dag.nodes()))
    reqs.append(dict(op="edges", l=l)); pending.append(("edges", spec, e_impl))
    if n_impl != list(range(len(cmds))):
        ctx.fail("dag-nodes", f"grid_to_DAG lost or invented commands: nodes {n_impl}", dict(kind="spec", spec=spec, fn="dag"))
    # 3. DAG_to_list
    out = ids(pu.DAG_to_list(dag))
    why = py_respects(spec, out)
    if why:
        ctx.fail("dag-to-list", f"DAG_to_list(list_to_DAG(c)): {why}", dict(kind="spec", spec=spec, fn="dag_to_list", out=out))
    reqs.append(dict(op="isLinExt", l=l, out=out)); pending.append(("isLinExt", spec, True))
    reqs.append(dict(op="isLegal", l=l, out=out)); pending.append(("isLegal", spec, True))
    ctx.count("dag_roundtrip", ["dag", spec], nt, sample=dict(spec=spec, out=out))
    # 4. group_operations
    cls_of = {op["cls"] for op in spec["ops"]}
    from strawberryfields import ops as sfops
    pred = lambda o: o.__class__.__name__ in marked_cls
    if marked_cls == ("@feedforward",):
        pred = lambda o: bool(getattr(o, "measurement_deps", None))
    elif marked_cls == ("@selected",):
        pred = lambda o: getattr(o, "select", None) is not None
    elif marked_cls == ("@positive",):
        from strawberryfields.parameters import par_is_symbolic
        pred = lambda o: bool(getattr(o, "p", None)) and not par_is_symbolic(o.p[0]) and np.ndim(o.p[0]) == 0 and o.p[0] > 0
    with Recorder() as rec:
        A, B, C = pu.group_operations(cmds, pred)
    a, b, c = ids(A), ids(B), ids(C)
    why = py_respects(spec, a + b + c)
    if not why:
        if any(marked(spec["ops"][i]) for i in a + c):
            why = "marked operation in leading or trailing part"
        elif not b and c:
            why = "B empty but C not"
    if why:
        ctx.fail("group-operations", f"group_operations: {why}",
                 dict(kind="spec", spec=spec, fn="group", marked=list(marked_cls), A=a, B=b, C=c))
    if len(rec.calls) == 2:
        c1, c2 = ids(rec.calls[0]), ids(rec.calls[1])
        reqs.append(dict(op="groupSplit", l=l, c1=c1, c2=c2))
        pending.append(("groupSplit", spec, dict(A=a, B=b, C=c, lin1=True, lin2=True, rest=None)))
    else:
        ctx.disagree("group_operations/sort-calls", spec, "2 lexicographic sorts", len(rec.calls))
    ctx.count("group_operations", ["group", list(marked_cls), spec], nt and any(marked(o) for o in spec["ops"]))
    # 5. GBS measurement collection (only meaningful when the predicate is MeasureFock)
    if marked_cls == ("MeasureFock",):
        regs = prog.register
        try:
            outc = GBS().compile(cmds, regs)
            res = dict(ok=[[ident.get(id(x), len(cmds)), [r.ind for r in x.reg]] for x in outc])
            # property-level: A kept, then one measurement on the union, ascending
            keep = [x for x in res["ok"] if x[0] < len(cmds)]
            new = [x for x in res["ok"] if x[0] >= len(cmds)]
            fock_modes = sorted(m for op in spec["ops"] if op["cls"] == "MeasureFock" for m in op["regs"])
            why = None
            if len(new) != 1 or res["ok"][-1] is not new[0]:
                why = "not exactly one trailing collected measurement"
            elif new[0][1] != fock_modes:
                why = f"collected measurement on {new[0][1]}, measured modes were {fock_modes}"
            else:
                non_fock = [i for i, op in enumerate(spec["ops"]) if op["cls"] != "MeasureFock"]
                w = py_respects(spec, [x[0] for x in keep], non_fock)
                if w:
                    why = "leading part: " + w
                else:
                    # every non-measurement command that shares a wire with a measurement must come before it
                    pass
            if why:
                ctx.fail("gbs-collect", f"GBS.compile: {why}", dict(kind="spec", spec=spec, fn="gbs", out=res))
        except pu.CircuitError as e:
            msg = str(e)
            res = dict(err="following" if "following" in msg else "noFock" if "must contain" in msg else
                       "notConsecutive" if "not consecutive" in msg else "twice" if "more than once" in msg else msg)
            # property-level: raising is allowed only for circuits that are not of the form A+B
            if not any(op["cls"] == "MeasureFock" for op in spec["ops"]) and res["err"] != "noFock":
                ctx.fail("gbs-error", f"GBS.compile raised '{msg}' on a circuit without Fock measurements",
                         dict(kind="spec", spec=spec, fn="gbs"))
        reqs.append(dict(op="gbsCollect", l=l, A=a, B=b, C=c, newId=len(cmds)))
        pending.append(("gbsCollect", spec, res))
        ctx.count("gbs_collect:" + ("ok" if "ok" in res else res["err"]), ["gbs", spec], nt)


def compare(ctx, reqs, pending):
    if not ctx.proof_ok:
        return
    res = ctx.lean(reqs)
    for (kind, spec, impl), model in zip(pending, res):
        ctx.corr_cases += 1
        if kind == "edges":
            ok = sorted(set(map(tuple, model))) == sorted(set(map(tuple, impl)))
        elif kind == "groupSplit":
            ok = isinstance(model, dict) and all(model.get(k) == impl[k] for k in ("A", "B", "C", "lin1", "lin2"))
        else:
            ok = model == impl
        if not ok:
            ctx.disagree(f"K1.{kind} vs program_utils", spec, model, impl)


ALPHABET = None


def alphabet():
    """24 letters on 3 modes: one-mode gate, ordered two-mode gate, homodyne, Fock measurement of one mode and
    of a pair, gate with measured parameter"""
    a = []
    for i in range(3):
        a.append(dict(cls="Sgate", regs=[i], pars=[0.5, 0.0]))
        a.append(dict(cls="MeasureHomodyne", regs=[i], pars=[0.0]))
        a.append(dict(cls="MeasureFock", regs=[i], pars=[]))
    for i, j in itertools.permutations(range(3), 2):
        a.append(dict(cls="BSgate", regs=[i, j], pars=[0.5, 0.25]))
        a.append(dict(cls="Rgate", regs=[i], pars=[{"m": j, "k": 1}]))
    for i, j in itertools.combinations(range(3), 2):
        a.append(dict(cls="MeasureFock", regs=[j, i], pars=[]))
    return a


def corpus_specs():
    return [
        # measured-parameter link only (no shared mode)
        dict(n=3, ops=[dict(cls="MeasureHomodyne", regs=[0], pars=[0.0]), dict(cls="Sgate", regs=[2], pars=[0.5, 0.0]),
                       dict(cls="Rgate", regs=[1], pars=[{"m": 0, "k": 1}]), dict(cls="MeasureFock", regs=[2, 1], pars=[])]),
        # gate after a Fock measurement (GBS must raise)
        dict(n=2, ops=[dict(cls="MeasureFock", regs=[0], pars=[]), dict(cls="Sgate", regs=[0], pars=[0.5, 0.0]),
                       dict(cls="MeasureFock", regs=[1], pars=[])]),
        # descending registers, measurement collection order
        dict(n=4, ops=[dict(cls="BSgate", regs=[3, 1], pars=[0.5, 0.0]), dict(cls="MeasureFock", regs=[3], pars=[]),
                       dict(cls="Sgate", regs=[0], pars=[0.25, 0.0]), dict(cls="MeasureFock", regs=[1, 0], pars=[])]),
        dict(n=2, ops=[dict(cls="MeasureFock", regs=[0], pars=[]), dict(cls="MeasureFock", regs=[0, 1], pars=[])]),
        dict(n=1, ops=[]),
    ]


GM_GAUSS1 = ["Rgate", "Sgate", "Dgate", "Xgate", "Zgate", "Pgate", "Fouriergate"]
GM_GAUSS2 = ["BSgate", "S2gate", "MZgate", "CXgate", "CZgate"]
GM_NONG1 = ["Vgate", "Kgate"]
GM_PRIMITIVE_GAUSS = ("Dgate", "Sgate", "Rgate", "BSgate", "S2gate", "MZgate")


def gen_hybrid(rng):
    """hybrid circuit for the 'gaussian_merge' compiler: Gaussian gates between non-Gaussian ones, with blocks that
    cancel exactly (G; G.H and G(z); G(-z)) so that a merge removes commands without replacing them"""
    n = rng.randint(1, 4)
    ops_ = []
    for _ in range(rng.randint(2, 10)):
        u = rng.random()
        if u < 0.45:
            cls = rng.choice(GM_GAUSS1); regs = [rng.randrange(n)]
        elif u < 0.65 and n >= 2:
            cls = rng.choice(GM_GAUSS2); regs = rng.sample(range(n), 2)
        elif u < 0.9 or n < 2:
            cls = rng.choice(GM_NONG1); regs = [rng.randrange(n)]
        else:
            cls = "CKgate"; regs = rng.sample(range(n), 2)
        npar = dict(progs.ONE_GATES, **progs.TWO_GATES)[cls]
        op = dict(cls=cls, regs=regs, pars=progs.rand_pars(rng, cls, npar, [], 0.0))
        if rng.random() < 0.2:
            op["dagger"] = True
        ops_.append(op)
    for _ in range(rng.choice([0, 1, 1, 2])):       # cancelling blocks
        two = n >= 2 and rng.random() < 0.4
        cls = rng.choice(["BSgate", "S2gate", "MZgate"] if two else ["Rgate", "Sgate", "Dgate", "Fouriergate", "Xgate"])
        regs = rng.sample(range(n), 2) if two else [rng.randrange(n)]
        npar = dict(progs.ONE_GATES, **progs.TWO_GATES)[cls]
        g = dict(cls=cls, regs=regs, pars=progs.rand_pars(rng, cls, npar, [], 0.0))
        inv = dict(g, pars=list(g["pars"]))
        if g["pars"] and cls != "MZgate" and rng.random() < 0.5:
            inv["pars"][0] = -inv["pars"][0]
        else:
            inv["dagger"] = True
        t = rng.randint(0, len(ops_))
        mid = []
        if rng.random() < 0.4:      # symplectic part cancels, displacements on the block's modes remain
            mid = [dict(cls="Dgate", regs=[m], pars=progs.rand_pars(rng, "Dgate", 2, [], 0.0)) for m in regs]
        ops_[t:t] = [g] + mid + [inv]
    if rng.random() < 0.3:
        ops_.append(dict(cls="MeasureFock", regs=rng.sample(range(n), rng.randint(1, n)), pars=[]))
    return dict(n=n, ops=ops_)


def check_gaussian_merge(ctx, sf, spec):
    """'gaussian_merge': commands it does not merge are handed through as they are, so (a) any two of them sharing a mode
    keep their order, (b) none is lost or duplicated unless it is a Gaussian gate (merged), and (c) a new command acts on a
    mode only between the two surviving neighbours on that mode between which the source had a Gaussian gate"""
    import strawberryfields.program_utils as pu
    prog, cmds = progs.build(spec)
    rp = dict(kind="gm", spec=spec)
    ctx.oracle_cases += 1
    try:
        out = prog.compile(compiler="gaussian_merge").circuit
    except pu.CircuitError:
        ctx.tally("gm:circuit-error")
        return
    except Exception as e:  # noqa: BLE001
        ctx.fail("gm-raises", f"compile(compiler='gaussian_merge') raised {type(e).__name__}: {e}", rp)
        return
    ident = {id(c): i for i, c in enumerate(cmds)}
    out_ids = [ident.get(id(c), -1) for c in out]
    surv = [i for i in out_ids if i >= 0]
    gauss = lambda i: spec["ops"][i]["cls"] in GM_GAUSS1 + GM_GAUSS2
    ctx.count("gaussian_merge", ["gm", spec], len(surv) >= 2 and len(surv) < len(cmds), sample=dict(spec=spec, out=out_ids))
    ctx.tally("gm:merged" if len(surv) < len(cmds) else "gm:nothing-merged")
    if -1 not in out_ids and len(out) < len(cmds):
        ctx.tally("gm:cancelled-block-removed")
    why = None
    if len(set(surv)) != len(surv):
        why = "a command appears twice"
    lost = [i for i in range(len(cmds)) if i not in surv and not gauss(i)]
    if not why and lost:
        why = f"non-Gaussian commands {lost} are missing from the compiled circuit"
    if not why:
        why_ = py_respects(spec, surv, sorted(surv))
        if why_:
            why = why_
    if not why:
        w = wires_of(spec)
        for m in range(spec["n"]):
            src_seg, seg = {}, 0               # segment number on mode m -> does the source have a Gaussian gate there?
            for i in range(len(cmds)):
                if m in w[i]:
                    if i in surv:
                        seg += 1
                    elif gauss(i):
                        src_seg[seg] = True
            # a surviving Gaussian gate (not merged with anything) also counts for the segments on both sides of it
            seg = 0
            for c, i in zip(out, out_ids):
                if i >= 0:
                    if m in w[i]:
                        seg += 1
                elif m in [r.ind for r in c.reg] and not src_seg.get(seg):
                    why = (f"a new {type(c.op).__name__} acts on mode {m} after {seg} surviving commands of that mode, "
                           f"where the source has no merged Gaussian gate")
                    break
            if why:
                break
    if why:
        ctx.fail("gaussian-merge-order", f"gaussian_merge: {why}", dict(rp, out=out_ids))


def check_optimize(ctx, sf, spec):
    """`Program.optimize()` goes list -> grid -> (merges) -> DAG -> list.  Whatever it merges, the commands it hands through
    keep the order of any two that share a mode or are linked by a measured parameter, every command that reads a measurement
    result still comes after a measurement of that mode, and no measurement result is read by more commands than before"""
    from strawberryfields.parameters import par_regref_deps
    prog, cmds = progs.build(spec)
    rp = dict(kind="opt", spec=spec)
    ctx.oracle_cases += 1
    try:
        out = list(prog.optimize().circuit)
    except Exception as e:  # noqa: BLE001
        ctx.fail("optimize-raises", f"Program.optimize() raised {type(e).__name__}: {e}", rp)
        return
    ident = {id(c): i for i, c in enumerate(cmds)}
    out_ids = [ident.get(id(c), -1) for c in out]
    surv = [i for i in out_ids if i >= 0]
    ctx.count("optimize", ["opt", spec], len(surv) < len(cmds) and len(surv) >= 2, sample=dict(spec=spec, out=out_ids))

    def reads(c):
        return sorted({r.ind for p_ in c.op.p for r in par_regref_deps(p_)}) if hasattr(c.op, "p") else []
    why = None
    if len(set(surv)) != len(surv):
        why = "a command appears twice"
    if not why:
        why = py_respects(spec, surv, sorted(surv))
    if not why:
        measured = set()
        for c in out:
            for m in reads(c):
                if m not in measured:
                    why = f"{c.op} | {[r.ind for r in c.reg]} reads the measurement of mode {m} before any measurement of that mode"
            if type(c.op).__name__.startswith("Measure"):
                measured |= {r.ind for r in c.reg}
            if why:
                break
    if not why:
        n_src = sum(1 for c in cmds if reads(c))
        n_out = sum(1 for c in out if reads(c))
        if n_out > n_src:
            why = f"{n_out} commands read a measurement result, {n_src} did before optimisation (a feed-forward is applied twice)"
    if why:
        ctx.fail("optimize-order", f"Program.optimize(): {why}", dict(rp, out=out_ids))


def gen_feedforward(rng):
    """circuits with measurements and same-family neighbours of gates with measured parameters, in both orders"""
    n = rng.randint(2, 4)
    spec = progs.rand_circuit(rng, n, rng.randint(2, 8), p_meas=0.5, fock_meas=False)
    ops_ = spec["ops"]
    measured = []
    for i, o in enumerate(list(ops_)):
        if progs.category(o["cls"]) == "meas":
            measured += [r for r in o["regs"] if r not in measured]
    if not measured:
        m = rng.randrange(n)
        ops_.insert(0, dict(cls="MeasureHomodyne", regs=[m], pars=[0.0]))
        measured = [m]
    first_meas = min(i for i, o in enumerate(ops_) if progs.category(o["cls"]) == "meas")
    for _ in range(rng.randint(1, 3)):
        m = rng.choice(measured)
        tgt = rng.choice([x for x in range(n) if x != m])
        cls = rng.choice(["Rgate", "Xgate", "Zgate", "Dgate", "Sgate"])
        rest = [0.0] if cls in ("Dgate", "Sgate") else []
        plain = dict(cls=cls, regs=[tgt], pars=[rng.choice([0.125, -0.25, 0.5])] + rest)
        ff = dict(cls=cls, regs=[tgt], pars=[{"m": m, "k": rng.choice([1, 0.5, -1])}] + rest)
        pos = [i for i, o in enumerate(ops_) if progs.category(o["cls"]) == "meas" and m in o["regs"]]
        t = rng.randint(pos[0] + 1, len(ops_))
        pair = [plain, ff] if rng.random() < 0.5 else [ff, plain]
        if rng.random() < 0.3:
            pair = [ff, dict(ff)]
        ops_[t:t] = pair
    return spec


def run(ctx, sf):
    reqs, pending = [], []
    for spec in corpus_specs():
        check_spec(ctx, sf, spec, reqs, pending)
    for k in range(ctx.n(300, 3000)):
        spec = gen_feedforward(ctx.rng) if k % 2 else progs.rand_circuit(ctx.rng, ctx.rng.randint(1, 5), ctx.rng.randint(0, 10), p_meas=0.35)
        check_optimize(ctx, sf, spec)
    for k in range(ctx.n(400, 4000)):
        check_gaussian_merge(ctx, sf, gen_hybrid(ctx.rng))
    rng = ctx.rng
    nmax = 6 if ctx.tier == "quick" else 9
    for k in range(ctx.n(1000, 8000)):
        n = rng.randint(1, nmax)
        spec = progs.rand_circuit(rng, n, rng.randint(0, 14), p_meas=0.35)
        if k % 4 == 1:      # registers with holes / late modes: subsystem index != position in the register
            spec = progs.with_del_new(rng, spec, p_del=1.0)
            ctx.tally("with-del-new")
        marked = ("MeasureFock",) if k % 3 else tuple(rng.sample(["Sgate", "BSgate", "MeasureHomodyne", "Rgate", "LossChannel", "Dgate"], 2))
        if k % 6 == 3:
            marked = (rng.choice(["@feedforward", "@selected"]),)
            ctx.tally("group-predicate:" + marked[0])
        check_spec(ctx, sf, spec, reqs, pending, marked)
        if len(reqs) > 4000:
            compare(ctx, reqs, pending); reqs, pending = [], []
    if ctx.tier == "thorough":
        alpha = alphabet()
        cnt = 0
        for L in range(1, 4):
            for word in itertools.product(alpha, repeat=L):
                check_spec(ctx, sf, dict(n=3, ops=[dict(w) for w in word]), reqs, pending)
                cnt += 1
                if len(reqs) > 6000:
                    compare(ctx, reqs, pending); reqs, pending = [], []
        ctx.extra["exhaustive_words_upto3_over24"] = cnt
    compare(ctx, reqs, pending)


def search(ctx, sf):
    run(ctx, sf)


def replay(ctx, rp):
    reqs, pending = [], []
    n0 = len(ctx.failures)
    if rp.get("kind") == "opt":
        check_optimize(ctx, sf_mod(), rp["spec"])
        return len(ctx.failures) > n0
    if rp.get("kind") == "gm":
        check_gaussian_merge(ctx, sf_mod(), rp["spec"])
        return len(ctx.failures) > n0
    check_spec(ctx, sf_mod(), rp["spec"], reqs, pending, tuple(rp.get("marked", ("MeasureFock",))))
    return len(ctx.failures) > n0


def sf_mod():
    import strawberryfields as sf
    return sf
