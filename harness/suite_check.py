"""Development tool (not a registered check): compare a junit file of a full SF test-suite run (on a scratch worktree of /repo
with all `fix:` commits) with the baseline's list of stably passing tests.
usage: python3 harness/suite_check.py /tmp/fullsuite.xml"""
import json
import sys
import xml.etree.ElementTree as ET

base = json.load(open("/root/.vp/BASELINE.json"))
stable = set(base["stable_pass"])
res = {}
for tc in ET.parse(sys.argv[1]).getroot().iter("testcase"):
    name = f"{tc.get('classname')}::{tc.get('name')}"
    bad = any(ch.tag in ("failure", "error") for ch in tc)
    skipped = any(ch.tag == "skipped" for ch in tc)
    res[name] = "fail" if bad else "skip" if skipped else "pass"
missing = sorted(t for t in stable if t not in res)
notpass = sorted(t for t in stable if t in res and res[t] != "pass")
print(f"baseline stable_pass={len(stable)} run={len(res)} missing={len(missing)} not-passing={len(notpass)}")
for t in (missing[:10] + notpass[:20]):
    print("  ", t, res.get(t))
sys.exit(1 if missing or notpass else 0)
