"""Regenerates MANIFEST.json (kept valid at all times) from the sidecar files
harness/props/cXX.manifest.json ({text, note, technique, ref}); a property without a sidecar is listed
under not_applicable with the reason in NOT_CLAIMED (or the default)."""
import json
from pathlib import Path

V = Path(__file__).resolve().parents[1]
CLAIMED = {}
for f in sorted((V / "harness" / "props").glob("c*.manifest.json")):
    CLAIMED[f.name.split(".")[0].upper()] = json.loads(f.read_text())
NOT_CLAIMED = {}
nc = V / "harness" / "props" / "not_claimed.json"
if nc.exists():
    NOT_CLAIMED = json.loads(nc.read_text())
PENDING_REASON = "check not built yet in this round; the Lean model for its core is still under construction"

props = [json.loads(l) for l in (V / "properties.jsonl").read_text().splitlines() if l.strip()]
checks, na = [], []
for p in props:
    pid = p["id"]
    if pid in CLAIMED:
        c = CLAIMED[pid]
        checks.append(dict(
            property_id=pid, quick_cmd=f"./check {pid} --tier quick", thorough_cmd=f"./check {pid} --tier thorough",
            evidence_file=f"evidence/{pid}.json", replay_cmd_template=f"./check {pid} --replay {{path}}",
            engine="lean4-sfv", level_claimed=dict(category="proof", text=c["text"], design_ref=c["ref"]),
            level_note=c["note"], technique=c["technique"]))
    else:
        na.append(dict(property_id=pid, reason=NOT_CLAIMED.get(pid, PENDING_REASON)))
m = dict(
    version=1, setup_cmd="./check --setup",
    hooks=dict(guard="SF_VERIF", enable="no source hooks: observation is done by wrapping objects at run time",
               baseline_off_cmd="cd /repo && /venv/bin/python -m pytest -ra -q -p no:cacheprovider --timeout=900 "
                                "--continue-on-collection-errors",
               source_commits=[], add_only=True),
    engines=[dict(name="lean4-sfv", path="lean/", serves_properties=sorted(CLAIMED),
                  kind_free_text="Lean 4.33 library SFV (models, proofs, property theorems, axiom audit) + JSON line "
                                 "driver + Python correspondence/oracle harness under harness/")],
    checks=checks, not_applicable=na,
    notes="See DESIGN.md. Exit codes: 0 held, 1 VIOLATION, 2 infrastructure error/time-out.")
(V / "MANIFEST.json").write_text(json.dumps(m, indent=1) + "\n")
print("claimed", sorted(CLAIMED), "na", len(na))
