"""Regenerates MANIFEST.json from the table below (kept valid at all times)."""
import json
from pathlib import Path

V = Path(__file__).resolve().parents[1]
CLAIMED = {
    "C04": dict(
        text="Lean 4 theorems over the K1 circuit model: every topological order of the wire DAG, every "
             "group_operations split and the GBS measurement collection keep the command multiset and the order of "
             "dependent commands (all circuits, all schedules); tied to program_utils/gbs.py by an exact "
             "correspondence run and a proved certificate checker applied to every list the real code returns.",
        note="Trusted: Lean kernel + {propext, Classical.choice, Quot.sound}; correspondence harness; NetworkX only "
             "trusted to return a list (validated per call). gaussian_merge's reordering is checked under C11.",
        technique="Lean 4 proof (trace-monoid reordering lemma, induction) + model/code correspondence",
        ref="DESIGN.md §3 K1, §4 C04"),
    "C18": dict(
        text="Lean 4 theorems over the model of Program.__eq__ and program_equivalence: equality implies field-by-field "
             "identical commands (hence equal meaning), is reflexive and symmetric; DAG-isomorphism equivalence implies "
             "equal meaning in every monoid interpretation that depends only on the compared attributes and commutes on "
             "disjoint wires (via the K1 reordering theorem). Exact correspondence on generated (base, variant) pairs; "
             "oracle runs both programs whenever the real comparison says equal/equivalent.",
        note="Trusted: Lean kernel + standard axioms; correspondence harness; NetworkX is_isomorphic (cross-checked by the "
             "model's brute-force isomorphism search on <=7 commands); symmetric-gate list is a physical assumption. "
             "Completeness direction (reorder => equivalent) proved only under an edge-set hypothesis (…_partial), "
             "checked on every generated reorder.",
        technique="Lean 4 proof (soundness of comparison via trace-monoid lemma) + model/code correspondence",
        ref="DESIGN.md §3 K1, §4 C18"),
}
PENDING_REASON = "check not built yet in this round; the Lean model for its core is still under construction"

props = [json.loads(l) for l in (V / "properties.jsonl").read_text().splitlines() if l.strip()]
checks, na = [], []
for p in props:
    pid = p["id"]
    if pid in CLAIMED:
        c = CLAIMED[pid]
        checks.append(dict(
            property_id=pid, quick_cmd=f"./check {pid} --tier quick", thorough_cmd=f"./check {pid} --tier thorough",
            evidence_file=f"evidence/{pid}.json", replay_cmd_template=f"./check {pid} --replay {{path}}",
            engine="lean4-sfv", level_claimed=dict(category="proof", text=c["text"], design_ref=c["ref"]),
            level_note=c["note"], technique=c["technique"]))
    else:
        na.append(dict(property_id=pid, reason=PENDING_REASON))
m = dict(
    version=1, setup_cmd="./check --setup",
    hooks=dict(guard="SF_VERIF", enable="no source hooks: observation is done by wrapping objects at run time",
               baseline_off_cmd="cd /repo && /venv/bin/python -m pytest -ra -q -p no:cacheprovider --timeout=900 "
                                "--continue-on-collection-errors",
               source_commits=[], add_only=True),
    engines=[dict(name="lean4-sfv", path="lean/", serves_properties=sorted(CLAIMED),
                  kind_free_text="Lean 4.33 library SFV (models, proofs, property theorems, axiom audit) + JSON line "
                                 "driver + Python correspondence/oracle harness under harness/")],
    checks=checks, not_applicable=na,
    notes="See DESIGN.md. Exit codes: 0 held, 1 VIOLATION, 2 infrastructure error/time-out.")
(V / "MANIFEST.json").write_text(json.dumps(m, indent=1) + "\n")
print("claimed", sorted(CLAIMED), "na", len(na))
