"""Run the registered checks against a seeded change kept under /verif/seeded/<id>/ (patch.diff, demo.py, meta.json):
apply the patch (to /repo itself with --in-place, which is what the registered commands see; by default to a scratch git
worktree of /repo's HEAD that the check is pointed at through SF_REPO, so that several seeded changes can be evaluated at
once and /repo is never touched), run the demonstration (must FAIL), run `./check <property> --tier <tier>` (must print a
VIOLATION line), undo / remove, and record the outcome in meta.json["detection"].

usage: python3 harness/seedtest.py seeded/<id> [--tier quick] [--checks C01,C05] [--no-record]"""
import argparse
import json
import subprocess
import sys
import time
from pathlib import Path

V = Path(__file__).resolve().parents[1]
REPO = "/repo"


def sh(cmd, **kw):
    return subprocess.run(cmd, shell=isinstance(cmd, str), capture_output=True, text=True, **kw)


def main():
    ap = argparse.ArgumentParser()
    ap.add_argument("dir")
    ap.add_argument("--tier", default="quick")
    ap.add_argument("--checks", default=None)
    ap.add_argument("--no-record", action="store_true")
    ap.add_argument("--in-place", action="store_true")
    a = ap.parse_args()
    d = Path(a.dir).resolve()
    meta = json.loads((d / "meta.json").read_text())
    checks = a.checks.split(",") if a.checks else [meta["property"]]
    import os, tempfile
    if a.in_place:
        repo = REPO
        if sh(f"git -C {REPO} status --porcelain").stdout.strip():
            print("refusing: /repo has uncommitted changes")
            sys.exit(2)
    else:
        repo = tempfile.mkdtemp(prefix="seedwt_", dir="/tmp")
        os.rmdir(repo)
        r = sh(f"git -C {REPO} worktree add -q --detach {repo} HEAD")
        if r.returncode != 0:
            print("cannot create worktree:", r.stderr)
            sys.exit(2)
    out = {}
    env = dict(os.environ, SF_REPO=repo)
    try:
        r = sh(f"git -C {repo} apply --3way {d / 'patch.diff'}")
        if r.returncode != 0:
            r = sh(f"git -C {repo} apply {d / 'patch.diff'}")
        if r.returncode != 0:
            print("patch does not apply:", r.stderr[-500:])
            sys.exit(2)
        demo = sh(f"cd {d} && PYTHONPATH={repo} /venv/bin/python -W ignore demo.py", timeout=900)
        out["demo_on_changed"] = "FAIL" if demo.returncode != 0 else "PASS"
        for c in checks:
            t0 = time.time()
            ev = V / "evidence" / f"{c}.json"       # evidence must describe runs on the unchanged tree: keep it
            saved = ev.read_text() if ev.exists() else None
            try:
                r = sh(f"cd {V} && ./check {c} --tier {a.tier}", timeout=7200, env=env)
            finally:
                if saved is not None:
                    ev.write_text(saved)
            viol = [l for l in r.stdout.splitlines() if l.startswith("VIOLATION")]
            inputs = [l.strip() for l in r.stdout.splitlines() if l.strip().startswith("failing input")][:4]
            out[c] = dict(rc=r.returncode, violation=viol[:1], failing_inputs=inputs, wall_s=round(time.time() - t0, 1),
                          tier=a.tier, no_failing_input_found=any("no-failing-input-found" in v for v in viol))
            print(c, "rc", r.returncode, viol[:1], inputs[:2])
    finally:
        if a.in_place:
            sh(f"git -C {REPO} reset -q --hard HEAD")
            sh(f"git -C {REPO} checkout -- .")
        else:
            sh(f"git -C {REPO} worktree remove --force {repo}")
    demo2 = sh(f"cd {d} && PYTHONPATH={REPO} /venv/bin/python -W ignore demo.py", timeout=900)
    out["demo_on_unchanged"] = "PASS" if demo2.returncode == 0 else "FAIL"
    print("demo changed:", out["demo_on_changed"], "unchanged:", out["demo_on_unchanged"])
    if not a.no_record:
        meta.setdefault("detection", {}).update(out)
        (d / "meta.json").write_text(json.dumps(meta, indent=1) + "\n")


if __name__ == "__main__":
    main()
