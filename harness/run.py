import importlib
import os
import sys
from pathlib import Path

sys.path.insert(0, str(Path(__file__).resolve().parent))
os.environ.setdefault("SF_VERIF", "1")
os.environ.setdefault("OMP_NUM_THREADS", "2")
os.environ.setdefault("NUMBA_NUM_THREADS", "2")
from lib import core  # noqa: E402

pid = sys.argv[1]
try:
    mod = importlib.import_module(f"props.{pid.lower()}")
except ModuleNotFoundError as e:
    print(f"INFRA-ERROR no check for {pid}: {e}")
    sys.exit(2)
core.main(pid, mod, sys.argv[2:])
