#!/bin/bash
# harness/integrate.sh <Cxx> : merge the builder branch wp-Cxx (framework + SF fix commits) into the main branches
X=$1
cd "$(dirname "$0")/.."
git checkout -- evidence 2>/dev/null
git merge --no-edit wp-$X 2>&1 | tail -1
if git status --short | grep -q "^UU"; then
  if git status --short | grep -q "^UU known_findings.json"; then python3 harness/merge_known.py $X && git add known_findings.json; fi
  for f in $(git status --short | grep "^UU evidence" | awk '{print $2}'); do git checkout --theirs $f; git add $f; done
  if git status --short | grep -q "^UU"; then echo "UNRESOLVED:"; git status --short | grep "^UU"; exit 1; fi
  git commit -qm "Merge wp-$X"
fi
shas=$(git -C /repo log main..wp-$X --format=%h --no-merges --reverse)
if [ -n "$shas" ]; then (cd /repo && git cherry-pick $shas 2>&1 | grep -E "error|CONFLICT|\[main" | tail -8); fi
./check --setup 2>&1 | tail -1
for s in 0 1; do VERIF_SEED=$s ./check $X 2>&1 | grep -v "^KNOWN" | tail -1 | cut -c1-220; done
python3 harness/mkmanifest.py >/dev/null; python3 harness/fix_shas.py
git add -A; git commit -qm "$X integrated (follow-up)" -q
git -C /verif worktree remove --force /tmp/b_$X/verif 2>/dev/null; git -C /repo worktree remove --force /tmp/b_$X/repo 2>/dev/null
