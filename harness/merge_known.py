import json, subprocess, sys
def load(stage):
    return json.loads(subprocess.check_output(["git", "-C", "/verif", "show", f":{stage}:known_findings.json"]))
ours, theirs = load(2), load(3)
out = {"findings": list(ours.get("findings", [])), "fixed": list(ours.get("fixed", []))}
for f in theirs.get("findings", []):
    if not any(g["property"] == f["property"] and g["signature"] == f["signature"] for g in out["findings"]):
        out["findings"].append(f)
for f in theirs.get("fixed", []):
    if f not in out["fixed"]:
        out["fixed"].append(f)
open("/verif/known_findings.json", "w").write(json.dumps(out, indent=1) + "\n")
print(len(out["findings"]), "findings", len(out["fixed"]), "fixed")
