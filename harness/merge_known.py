"""Resolves a merge conflict in known_findings.json: union of both sides' "findings" and "fixed"; with a property id as
argument, that property's findings are taken from the merged branch only (a follow-up may have repaired a former finding)."""
import json, subprocess, sys
def load(stage):
    return json.loads(subprocess.check_output(["git", "-C", "/verif", "show", f":{stage}:known_findings.json"]))
ours, theirs = load(2), load(3)
prop = sys.argv[1] if len(sys.argv) > 1 else None
out = {"findings": [f for f in ours.get("findings", []) if f["property"] != prop], "fixed": list(ours.get("fixed", []))}
for f in theirs.get("findings", []):
    if not any(g["property"] == f["property"] and g["signature"] == f["signature"] for g in out["findings"]):
        out["findings"].append(f)
for f in theirs.get("fixed", []):
    if f not in out["fixed"]:
        out["fixed"].append(f)
# former findings that were repaired since: never re-added by a branch that still carries an older copy of the file
from pathlib import Path as _P
_t = _P(__file__).with_name("removed_findings.json")
gone = {tuple(x) for x in json.loads(_t.read_text())} if _t.exists() else set()
out["findings"] = [f for f in out["findings"] if (f["property"], f["signature"]) not in gone]
open("/verif/known_findings.json", "w").write(json.dumps(out, indent=1) + "\n")
print(len(out["findings"]), "findings", len(out["fixed"]), "fixed")
