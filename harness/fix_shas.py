"""Rewrites the commit ids in known_findings.json "fixed" lines to the ids the same fix has on /repo's main branch
(builders committed on work branches; the integration cherry-picks changed the ids).  Matching is by commit subject."""
import json, re, subprocess
from pathlib import Path
V = Path(__file__).resolve().parents[1]
def git(*a):
    return subprocess.run(["git", "-C", "/repo", *a], capture_output=True, text=True).stdout
main = {}
for line in git("log", "--format=%h\t%s", "main").splitlines():
    h, s = line.split("\t", 1)
    main.setdefault(s, h)
main_ids = set(main.values())
# builder commits superseded by an equivalent fix of another builder that reached main first
ALIAS = {"f13c39f": "3b48688", "481a1b4": "2ad9592"}
d = json.loads((V / "known_findings.json").read_text())
out, unresolved = [], []
for f in d["fixed"]:
    m = re.match(r"(fixed: property=\S+ )([0-9a-f]{7,40})( .*)", f)
    if not m:
        out.append(f); continue
    sha = m.group(2)
    if sha in ALIAS:
        out.append(m.group(1) + ALIAS[sha] + m.group(3)); continue
    if any(x.startswith(sha) or sha.startswith(x) for x in main_ids):
        out.append(f); continue
    subj = git("log", "-1", "--format=%s", sha).strip()
    if subj in main:
        out.append(m.group(1) + main[subj] + m.group(3))
    else:
        unresolved.append((sha, subj)); out.append(f)
seen, dedup = set(), []
for f in out:
    if f not in seen:
        seen.add(f); dedup.append(f)
d["fixed"] = dedup
(V / "known_findings.json").write_text(json.dumps(d, indent=1) + "\n")
print("unresolved:", unresolved)
